"""Spec functions for homogeneous transforms and rotations (C08), from the statement / textbook definitions."""
import numpy as np

from spec.grid import diag, eye, mat, matmul, matvec
from vc import expr as E

FORMS = ("translation", "affine", "homogeneous")


def as_affine(arr: np.ndarray, form: str, D: int):
    """(A, t) denoted by one transformation given in one of the three accepted forms (no batch)."""
    if form == "translation":
        v = arr.reshape(-1)
        return eye(D), [v[i] for i in range(D)]
    if form == "affine":
        return arr, [E.ZERO] * D
    return arr[:, :D], [arr[i, D] for i in range(D)]


def compose(a, b):
    """(A, t) of  x -> a(b(x))."""
    Aa, ta = a
    Ab, tb = b
    A = matmul(Aa, Ab)
    t = matvec(Aa, tb)
    return A, [E.add(t[i], ta[i]) for i in range(len(ta))]


def apply(a, p, vectors=False):
    A, t = a
    y = matvec(A, p)
    if vectors:
        return list(y)
    return [E.add(y[i], t[i]) for i in range(len(t))]


def elementary_rotation(axis: str, c, s):
    """Rotation about a coordinate axis by an angle with cosine c and sine s (right-handed, counter-clockwise)."""
    if axis == "X":
        return mat([[1, 0, 0], [0, c, E.neg(s)], [0, s, c]])
    if axis == "Y":
        return mat([[c, 0, s], [0, 1, 0], [E.neg(s), 0, c]])
    if axis == "Z":
        return mat([[c, E.neg(s), 0], [s, c, 0], [0, 0, 1]])
    raise ValueError(axis)


def euler_matrix(order: str, cs):
    """R_{o1}(a1) R_{o2}(a2) R_{o3}(a3): the first angle belongs to the left-most rotation (applied last)."""
    R = None
    for ch, (c, s) in zip(order, cs):
        M = elementary_rotation(ch, c, s)
        R = M if R is None else matmul(R, M)
    return R


def quaternion_matrix(q):
    """Rotation matrix of a unit quaternion (w, x, y, z)."""
    w, x, y, z = q
    return mat([
        [1 - 2 * (y * y + z * z), 2 * (x * y - w * z), 2 * (x * z + w * y)],
        [2 * (x * y + w * z), 1 - 2 * (x * x + z * z), 2 * (y * z - w * x)],
        [2 * (x * z - w * y), 2 * (y * z + w * x), 1 - 2 * (x * x + y * y)],
    ])


def det3(M):
    return E.add(
        E.mul(M[0, 0], E.sub(E.mul(M[1, 1], M[2, 2]), E.mul(M[1, 2], M[2, 1]))),
        E.neg(E.mul(M[0, 1], E.sub(E.mul(M[1, 0], M[2, 2]), E.mul(M[1, 2], M[2, 0])))),
        E.mul(M[0, 2], E.sub(E.mul(M[1, 0], M[2, 1]), E.mul(M[1, 1], M[2, 0]))),
    )
