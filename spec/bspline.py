"""Analytic cubic B-spline (C14), written from the piecewise-polynomial definition.

B(x) = 2/3 - x^2 + |x|^3/2        for |x| < 1
     = (2 - |x|)^3 / 6            for 1 <= |x| < 2
     = 0                          otherwise
"""
from fractions import Fraction

from vc import expr as E


def basis_weights(t, derivative=0):
    """[B^(d)(t+1), B^(d)(t), B^(d)(t-1), B^(d)(t-2)] for an offset t in [0, 1): the weights of the four control
    points c[i-1], c[i], c[i+1], c[i+2] around x = i + t (polynomials in t, exact)."""
    t = E.lift(t)
    t2, t3 = E.mul(t, t), E.mul(t, t, t)
    h = Fraction(1, 2)
    s = Fraction(1, 6)
    if derivative == 0:
        w0 = E.mul(s, E.add(1, E.mul(-3, t), E.mul(3, t2), E.neg(t3)))        # (1 - t)^3 / 6
        w1 = E.add(Fraction(2, 3), E.neg(t2), E.mul(h, t3))                    # 2/3 - t^2 + t^3/2
        w2 = E.add(s, E.mul(h, t), E.mul(h, t2), E.mul(-h, t3))                # B(t - 1)
        w3 = E.mul(s, t3)                                                      # t^3 / 6
    elif derivative == 1:
        w0 = E.mul(-h, E.add(1, E.mul(-2, t), t2))
        w1 = E.add(E.mul(-2, t), E.mul(Fraction(3, 2), t2))
        w2 = E.add(h, t, E.mul(Fraction(-3, 2), t2))
        w3 = E.mul(h, t2)
    elif derivative == 2:
        w0 = E.sub(1, t)
        w1 = E.add(-2, E.mul(3, t))
        w2 = E.add(1, E.mul(-3, t))
        w3 = t
    elif derivative == 3:
        w0, w1, w2, w3 = E.const(-1), E.const(3), E.const(-3), E.const(1)
    else:
        w0 = w1 = w2 = w3 = E.ZERO
    return [w0, w1, w2, w3]


def bspline_value(x, derivative=0):
    """B^(d)(x) for a concrete rational x"""
    x = Fraction(x)
    a = abs(x)
    sg = 1 if x >= 0 else -1
    if a >= 2:
        return Fraction(0)
    if derivative == 0:
        return Fraction(2, 3) - a * a + a ** 3 / 2 if a < 1 else (2 - a) ** 3 / 6
    if derivative == 1:
        return sg * (-2 * a + Fraction(3, 2) * a * a) if a < 1 else sg * (-(2 - a) ** 2 / 2)
    if derivative == 2:
        return -2 + 3 * a if a < 1 else 2 - a
    raise ValueError(derivative)
