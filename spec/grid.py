"""Spec functions for sampling-grid coordinate maps, written from the statement of C01/C02 (not from the code).

A grid has N samples per axis (N = ceil of the stored raw size), spacing s > 0, center c, direction R
(orthogonal; columns are the unit steps along each grid axis).  Anchors of the statement:

* grid index 0 is the origin, index (N-1)/2 the center            ->  world(i) = c + R diag(s) (i - (N-1)/2)
* cube-corner coordinates -1/+1 are the first/last sample         ->  i = (u + 1)(N - 1)/2
* cube coordinates -1/+1 lie half a sample beyond them            ->  i = ((u + 1) N - 1)/2
* world coordinates are themselves.

Per axis two anchors determine an affine map uniquely; these are those interpolants.
"""
import numpy as np

from vc import expr as E

GRID, CUBE, CUBE_CORNERS, WORLD = "grid", "cube", "cube_corners", "world"
AXES = (GRID, CUBE, CUBE_CORNERS, WORLD)


def mat(rows):
    a = np.empty((len(rows), len(rows[0])), dtype=object)
    for i, r in enumerate(rows):
        for j, v in enumerate(r):
            a[i, j] = E.lift(v)
    return a


def matmul(a, b):
    n, k = a.shape
    k2, m = b.shape
    assert k == k2
    out = np.empty((n, m), dtype=object)
    for i in range(n):
        for j in range(m):
            out[i, j] = E.add(*[E.mul(a[i, l], b[l, j]) for l in range(k)])
    return out


def matvec(a, v):
    return np.array([E.add(*[E.mul(a[i, l], v[l]) for l in range(a.shape[1])]) for i in range(a.shape[0])], dtype=object)


def eye(D):
    return mat([[1 if i == j else 0 for j in range(D)] for i in range(D)])


def diag(v):
    D = len(v)
    return mat([[v[i] if i == j else 0 for j in range(D)] for i in range(D)])


def rotation2(t):
    """Every 2-D rotation except the half turn: Weierstrass parametrisation by t = tan(angle/2)."""
    d = E.add(1, E.mul(t, t))
    c = E.div(E.sub(1, E.mul(t, t)), d)
    s = E.div(E.mul(2, t), d)
    return mat([[c, E.neg(s)], [s, c]])


def rotation3(q):
    """Every 3-D rotation: R = Q(q)/|q|^2 for a free quaternion q = (w, x, y, z) != 0."""
    w, x, y, z = q
    n2 = E.add(E.mul(w, w), E.mul(x, x), E.mul(y, y), E.mul(z, z))
    m = [
        [w * w + x * x - y * y - z * z, 2 * (x * y - w * z), 2 * (x * z + w * y)],
        [2 * (x * y + w * z), w * w - x * x + y * y - z * z, 2 * (y * z - w * x)],
        [2 * (x * z - w * y), 2 * (y * z + w * x), w * w - x * x - y * y + z * z],
    ]
    return mat([[E.div(v, n2) for v in row] for row in m]), n2


class GridSpec:
    """Symbolic description of a grid: N (integer-valued), s, c, R given as expression arrays."""

    def __init__(self, N, s, c, R, align_corners=True):
        self.N, self.s, self.c, self.R = list(N), list(s), list(c), R
        self.D = len(self.N)
        self.align_corners = align_corners

    def origin(self):
        A = matmul(self.R, diag(self.s))
        half = [E.mul(E.sub(n, 1), E.const(1) / 2) for n in self.N]
        off = matvec(A, half)
        return [E.sub(self.c[i], off[i]) for i in range(self.D)]

    def to_index(self, axes):
        """(a, b) per axis with  i = a*u + b  (axes in {grid, cube, cube_corners})."""
        a, b = [], []
        for n in self.N:
            if axes == GRID:
                a.append(E.ONE), b.append(E.ZERO)
            elif axes == CUBE_CORNERS:
                h = E.mul(E.sub(n, 1), E.const(1) / 2)
                a.append(h), b.append(h)
            elif axes == CUBE:
                a.append(E.mul(n, E.const(1) / 2)), b.append(E.mul(E.sub(n, 1), E.const(1) / 2))
            else:
                raise ValueError(axes)
        return a, b

    def to_world(self, axes):
        """(A, t): world = A u + t"""
        D = self.D
        if axes == WORLD:
            return eye(D), [E.ZERO] * D
        a, b = self.to_index(axes)
        RS = matmul(self.R, diag(self.s))
        A = matmul(RS, diag(a))
        o = self.origin()
        t = matvec(RS, b)
        return A, [E.add(o[i], t[i]) for i in range(D)]

    def from_world(self, axes):
        """(A, t): u = A x + t   (uses R^-1 = R^T, the defining property of direction cosines)"""
        D = self.D
        if axes == WORLD:
            return eye(D), [E.ZERO] * D
        a, b = self.to_index(axes)
        Sinv_Rt = matmul(diag([E.div(1, s) for s in self.s]), self.R.T)
        o = self.origin()
        # i = Sinv_Rt (x - o) ; u = (i - b)/a
        Ainv = diag([E.div(1, ai) for ai in a])
        A = matmul(Ainv, Sinv_Rt)
        t0 = matvec(Sinv_Rt, [E.neg(v) for v in o])
        t = [E.div(E.sub(t0[i], b[i]), a[i]) for i in range(D)]
        return A, t


def point_map(g: GridSpec, axes, to_g: GridSpec, to_axes):
    """(A, t) of the map  coordinates w.r.t. (g, axes)  ->  coordinates w.r.t. (to_g, to_axes)."""
    A1, t1 = g.to_world(axes)
    A2, t2 = to_g.from_world(to_axes)
    A = matmul(A2, A1)
    t = matvec(A2, t1)
    return A, [E.add(t[i], t2[i]) for i in range(g.D)]


def hom(A, t):
    D = len(t)
    out = np.empty((D, D + 1), dtype=object)
    out[:, :D] = A
    for i in range(D):
        out[i, D] = t[i]
    return out
