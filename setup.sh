#!/bin/sh
# Build the overlay virtualenv offline: python 3.12 of /venv (torch, deepali editable install) + solver wheels.
set -e
cd "$(dirname "$0")"
if [ ! -x .venv/bin/python ] || ! .venv/bin/python -c "import z3, cvc5, jsonschema, torch" 2>/dev/null; then
  rm -rf .venv
  /venv/bin/python -m venv .venv
  PIP_NO_INDEX=1 .venv/bin/pip install -q --no-index --find-links /opt/veriftools/wheels z3-solver cvc5 icontract deal hypothesis jsonschema sympy
  echo "import site; site.addsitedir('/venv/lib/python3.12/site-packages')" > .venv/lib/python3.12/site-packages/_venv_overlay.pth
fi
.venv/bin/python -c "import z3, torch; print('verif venv ok: z3', z3.get_version_string(), 'torch', torch.__version__)"
