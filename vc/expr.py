"""Hash-consed symbolic scalar expressions (reals, integers, booleans).

An ``Expr`` is an immutable DAG node.  ``Expr.id`` is a small integer that is also what the shadow
tensors of :mod:`vc.shadow` store, so that torch itself moves symbolic payload around.

Smart constructors fold constants and apply only *sound* local simplifications (x*0, x+0, x*1,
ite with a constant/identical branches, ceil/floor of syntactically integral terms).
"""
from __future__ import annotations

import math
from fractions import Fraction
from typing import Dict, Iterable, List, Optional, Tuple, Union

Number = Union[int, float, Fraction]

_TABLE: Dict[tuple, "Expr"] = {}
EXPRS: List["Expr"] = []


class Unsupported(Exception):
    """Construct outside the modelled subset (never a property verdict)."""


def rationalize(x, single: bool = False) -> Fraction:
    """Exact rational meant by a float.  Floats are read as the 'intended' real number: a float within
    rounding distance of a small-denominator rational denotes that rational (assumption
    'floats-are-reals', see DESIGN.md §2)."""
    if isinstance(x, Fraction):
        return x
    if isinstance(x, bool):
        return Fraction(int(x))
    if isinstance(x, int):
        return Fraction(x)
    x = float(x)
    if x != x or x in (math.inf, -math.inf):
        raise Unsupported(f"non-finite constant {x}")
    f = Fraction(x)
    if f.denominator == 1:
        return f
    if not single:
        r = repr(x)
        digits = r.split("e")[0].replace("-", "").replace(".", "").lstrip("0")
        if len(digits) <= 12:
            return Fraction(r)  # the decimal literal the float was written as
    tol = 2e-7 if single else 1e-13
    # absolute tolerance below 1: a float produced by a float computation on O(1) numbers carries an absolute error of
    # that size (cancellation makes the relative error of small results arbitrarily large), see DESIGN.md assumptions
    for lim in (64, 1000, 10 ** 6):
        g = f.limit_denominator(lim)
        if abs(g - f) <= tol * max(1, abs(f)):
            return g
    return f


class Expr:
    __slots__ = ("op", "args", "sort", "id", "__weakref__")

    def __init__(self, op, args, sort):
        self.op = op
        self.args = args
        self.sort = sort
        self.id = len(EXPRS)
        EXPRS.append(self)

    # ---- structure
    def is_const(self):
        return self.op == "const" or self.op == "bconst"

    @property
    def value(self):
        return self.args[0]

    def __hash__(self):
        return self.id

    def __repr__(self):
        return to_str(self)

    # ---- python numeric protocol (builds expressions)
    def __add__(self, o):
        return add(self, lift(o))

    __radd__ = __add__

    def __sub__(self, o):
        return add(self, neg(lift(o)))

    def __rsub__(self, o):
        return add(lift(o), neg(self))

    def __mul__(self, o):
        return mul(self, lift(o))

    __rmul__ = __mul__

    def __truediv__(self, o):
        return div(self, lift(o))

    def __rtruediv__(self, o):
        return div(lift(o), self)

    def __floordiv__(self, o):
        return floor(div(self, lift(o)))

    def __rfloordiv__(self, o):
        return floor(div(lift(o), self))

    def __mod__(self, o):
        o = lift(o)
        return add(self, neg(mul(o, floor(div(self, o)))))

    def __neg__(self):
        return neg(self)

    def __pos__(self):
        return self

    def __abs__(self):
        return abs_(self)

    def __pow__(self, n):
        return pow_(self, n)

    def __rpow__(self, b):
        return pow_(lift(b), self)

    def __lt__(self, o):
        return lt(self, lift(o))

    def __le__(self, o):
        return le(self, lift(o))

    def __gt__(self, o):
        return lt(lift(o), self)

    def __ge__(self, o):
        return le(lift(o), self)

    # NOTE: __eq__ stays identity (hash-consing); use eq(a, b) to build an equation.

    def __bool__(self):
        if self.op == "bconst":
            return self.args[0]
        if self.sort != "B":
            raise Unsupported("truth value of a non-boolean symbolic expression")
        from . import explore

        return explore.decide(self)

    def __float__(self):
        if self.op == "const":
            return float(self.args[0])
        raise Unsupported("float() of symbolic value")

    def __int__(self):
        if self.op == "const" and self.args[0].denominator == 1:
            return int(self.args[0])
        raise Unsupported("int() of symbolic value")

    __index__ = __int__


def _mk(op, args, sort) -> Expr:
    key = (op, sort) + tuple(a.id if isinstance(a, Expr) else ("#", a) for a in args)
    e = _TABLE.get(key)
    if e is None:
        e = Expr(op, tuple(args), sort)
        _TABLE[key] = e
    return e


def const(x) -> Expr:
    if isinstance(x, Expr):
        return x
    if isinstance(x, bool):
        return bconst(x)
    f = rationalize(x)
    return _mk("const", (f,), "I" if f.denominator == 1 else "R")


def bconst(b: bool) -> Expr:
    return _mk("bconst", (bool(b),), "B")


ZERO = _mk("const", (Fraction(0),), "I")  # id 0: a zero-filled shadow tensor is the symbolic zero
ONE = _mk("const", (Fraction(1),), "I")
MONE = _mk("const", (Fraction(-1),), "I")
TRUE = bconst(True)
FALSE = bconst(False)
assert ZERO.id == 0


def lift(x) -> Expr:
    if isinstance(x, Expr):
        return x
    if isinstance(x, bool):
        return bconst(x)
    if isinstance(x, (int, float, Fraction)):
        return const(x)
    try:  # numpy scalars
        import numpy as np

        if isinstance(x, np.generic):
            return lift(x.item())
    except Exception:
        pass
    raise Unsupported(f"cannot lift {type(x).__name__} into Expr")


def var(name: str, sort: str = "R") -> Expr:
    assert sort in ("R", "I", "B")
    return _mk("var", (name,), sort)


def num(e: Expr) -> Expr:
    """Coerce booleans to 0/1 numbers."""
    if e.sort == "B":
        if e.op == "bconst":
            return ONE if e.args[0] else ZERO
        return ite(e, ONE, ZERO)
    return e


def _sort_join(args: Iterable[Expr]) -> str:
    return "I" if all(a.sort == "I" for a in args) else "R"


def add(*xs) -> Expr:
    terms: List[Expr] = []
    c = Fraction(0)
    stack = [num(lift(x)) for x in xs][::-1]
    while stack:
        x = stack.pop()
        if x.op == "const":
            c += x.args[0]
        elif x.op == "add":
            stack.extend(x.args[::-1])
        else:
            terms.append(x)
    # combine syntactically equal terms  (t + t -> 2 t ; t - t -> 0)
    if len(terms) > 1:
        coef: Dict[int, Fraction] = {}
        order: List[Expr] = []
        for t in terms:
            k, base = _split_coef(t)
            if base.id in coef:
                coef[base.id] += k
            else:
                coef[base.id] = k
                order.append(base)
        terms = []
        for base in order:
            k = coef[base.id]
            if k == 0:
                continue
            terms.append(base if k == 1 else _mul_raw(k, [base]))
    if not terms:
        return const(c)
    if c != 0:
        terms.append(const(c))
    if len(terms) == 1:
        return terms[0]
    terms.sort(key=lambda t: t.id)
    return _mk("add", terms, _sort_join(terms))


def _split_coef(t: Expr) -> Tuple[Fraction, Expr]:
    if t.op == "mul" and t.args[-1].op == "const":
        rest = t.args[:-1]
        base = rest[0] if len(rest) == 1 else _mk("mul", rest, _sort_join(rest))
        return t.args[-1].args[0], base
    return Fraction(1), t


def _mul_raw(c: Fraction, factors: List[Expr]) -> Expr:
    factors = sorted(factors, key=lambda t: t.id)
    if c != 1:
        factors = factors + [const(c)]
    if len(factors) == 1:
        return factors[0]
    return _mk("mul", factors, _sort_join(factors))


def mul(*xs) -> Expr:
    factors: List[Expr] = []
    c = Fraction(1)
    stack = [num(lift(x)) for x in xs][::-1]
    while stack:
        x = stack.pop()
        if x.op == "const":
            c *= x.args[0]
            if c == 0:
                return ZERO
        elif x.op == "mul":
            stack.extend(x.args[::-1])
        else:
            factors.append(x)
    if not factors:
        return const(c)
    # distribute a constant over a sum with a constant? no: keep structure, ring back end expands.
    return _mul_raw(c, factors)


def neg(x) -> Expr:
    return mul(MONE, x)


def sub(a, b) -> Expr:
    return add(a, neg(b))


def div(a, b) -> Expr:
    a = num(lift(a))
    b = num(lift(b))
    if b.op == "const":
        if b.args[0] == 0:
            raise ZeroDivisionError("symbolic division by constant zero")
        return mul(a, const(1 / b.args[0]))
    if a is b:
        # x/x: only sound where x != 0; recorded as a division so that x != 0 becomes an obligation
        _note_division(b)
        return ONE
    if a.op == "const" and a.args[0] == 0:
        _note_division(b)
        return ZERO
    _note_division(b)
    k, base = _split_coef(b)
    if k != 1:
        return mul(const(1 / k), _mk("div", (a, base), "R")) if a.op != "const" else mul(
            const(a.args[0] / k), _mk("div", (ONE, base), "R")
        )
    if a.op == "const" and a.args[0] != 1:
        return mul(a, _mk("div", (ONE, b), "R"))
    return _mk("div", (a, b), "R")


_DIVISION_HOOK = None


def set_division_hook(fn):
    global _DIVISION_HOOK
    _DIVISION_HOOK = fn


def _note_division(b: Expr):
    if _DIVISION_HOOK is not None:
        _DIVISION_HOOK(b)


def pow_(a, n) -> Expr:
    a = num(lift(a))
    if isinstance(n, Expr):
        if n.op == "const":
            n = n.args[0]
        else:
            return fn("pow", a, n)
    n = rationalize(n)
    if n.denominator == 1:
        n = int(n)
        if n == 0:
            return ONE
        if n == 1:
            return a
        if n < 0:
            return div(ONE, pow_(a, -n))
        if a.op == "const":
            return const(a.args[0] ** n)
        return mul(*([a] * n))
    if n == Fraction(1, 2):
        return sqrt(a)
    if n == Fraction(-1, 2):
        return div(ONE, sqrt(a))
    if a.op == "const" and a.args[0] > 0:
        return const(float(a.args[0]) ** float(n))
    return fn("pow", a, const(n))


def is_integral(e: Expr) -> bool:
    return e.sort == "I"


def floor(a) -> Expr:
    a = num(lift(a))
    if a.op == "const":
        return const(math.floor(a.args[0]))
    if a.sort == "I":
        return a
    # floor(x + k) = floor(x) + k for integer constant k
    if a.op == "add" and a.args[-1].op == "const" and a.args[-1].args[0].denominator == 1:
        rest = a.args[:-1]
        base = rest[0] if len(rest) == 1 else _mk("add", rest, _sort_join(rest))
        return add(floor(base), a.args[-1])
    return _mk("floor", (a,), "I")


def ceil(a) -> Expr:
    return neg(floor(neg(a)))


def trunc(a) -> Expr:
    a = num(lift(a))
    if a.op == "const":
        return const(math.trunc(a.args[0]))
    if a.sort == "I":
        return a
    return ite(le(ZERO, a), floor(a), neg(floor(neg(a))))


def round_(a) -> Expr:
    """Round to nearest integer (ties under-specified: any integer within 1/2)."""
    a = num(lift(a))
    if a.op == "const":
        return const(round(a.args[0]))
    if a.sort == "I":
        return a
    return _mk("round", (a,), "I")


def ite(c, a, b) -> Expr:
    c = lift(c)
    a = lift(a)
    b = lift(b)
    if c.op == "bconst":
        return a if c.args[0] else b
    if a is b:
        return a
    if a.sort == "B" or b.sort == "B":
        a_, b_ = a, b
        if a_.sort != "B" or b_.sort != "B":
            raise Unsupported("ite mixing bool and number")
        return or_(and_(c, a_), and_(not_(c), b_))
    from . import explore

    s = explore.simplify_cond(c)
    if s is not None:
        return a if s else b
    return _mk("ite", (c, a, b), _sort_join((a, b)))


def abs_(a) -> Expr:
    a = num(lift(a))
    if a.op == "const":
        return const(abs(a.args[0]))
    return ite(le(ZERO, a), a, neg(a))


def min_(a, b) -> Expr:
    a, b = num(lift(a)), num(lift(b))
    if a is b:
        return a
    from . import explore

    if explore.simplify_cond(le(b, a)) is True:  # also settles the tie a == b, which le(a, b) alone leaves open
        return b
    return ite(le(a, b), a, b)


def max_(a, b) -> Expr:
    a, b = num(lift(a)), num(lift(b))
    if a is b:
        return a
    from . import explore

    if explore.simplify_cond(le(b, a)) is True:
        return a
    return ite(le(a, b), b, a)


def sign(a) -> Expr:
    a = num(lift(a))
    return ite(lt(ZERO, a), ONE, ite(lt(a, ZERO), MONE, ZERO))


# ---- uninterpreted / elementary functions -------------------------------------------------------
_FN_EVAL = {
    "sin": math.sin,
    "cos": math.cos,
    "tan": math.tan,
    "exp": math.exp,
    "log": math.log,
    "sqrt": math.sqrt,
    "tanh": math.tanh,
    "atanh": math.atanh,
    "acos": math.acos,
    "asin": math.asin,
    "atan": math.atan,
    "atan2": math.atan2,
    "sigmoid": lambda x: 1 / (1 + math.exp(-x)),
    "pow": lambda a, b: a ** b,
    "erf": math.erf,
    "log1p": math.log1p,
    "expm1": math.expm1,
}


def fn(name: str, *args) -> Expr:
    args = tuple(num(lift(a)) for a in args)
    if all(a.op == "const" for a in args) and name in _FN_EVAL:
        vals = [a.args[0] for a in args]
        # exact special values
        if name in ("sin", "tan", "tanh", "atanh", "asin", "atan", "expm1", "log1p", "erf") and vals[0] == 0:
            return ZERO
        if name in ("cos", "exp") and vals[0] == 0:
            return ONE
        if name == "log" and vals[0] == 1:
            return ZERO
        if name == "sqrt":
            v = vals[0]
            if v >= 0:
                rn, rd = math.isqrt(v.numerator), math.isqrt(v.denominator)
                if rn * rn == v.numerator and rd * rd == v.denominator:
                    return const(Fraction(rn, rd))
        try:
            return const(_FN_EVAL[name](*[float(v) for v in vals]))
        except (ValueError, OverflowError):
            raise Unsupported(f"{name}{tuple(vals)} undefined")
    # inverse pairs
    if len(args) == 1:
        a = args[0]
        inv = {"tanh": "atanh", "atanh": "tanh", "exp": "log", "log": "exp"}
        if a.op == "fn" and a.args[0] == inv.get(name):
            return a.args[1]
    return _mk("fn", (name,) + args, "R")


def sqrt(a) -> Expr:
    a = num(lift(a))
    # sqrt(x*x) = |x|
    if a.op == "mul" and len(a.args) == 2 and a.args[0] is a.args[1]:
        return abs_(a.args[0])
    return fn("sqrt", a)


def sin(a):
    return fn("sin", a)


def cos(a):
    return fn("cos", a)


def exp(a):
    return fn("exp", a)


def log(a):
    return fn("log", a)


# ---- booleans -----------------------------------------------------------------------------------
def _cmp(op, a, b) -> Expr:
    a, b = num(lift(a)), num(lift(b))
    if a.op == "const" and b.op == "const":
        x, y = a.args[0], b.args[0]
        return bconst({"lt": x < y, "le": x <= y, "eq": x == y}[op])
    if a is b:
        return bconst(op != "lt")
    d = add(a, neg(b))
    if d.op == "const":
        return _cmp(op, d, ZERO)
    return _mk(op, (a, b), "B")


def lt(a, b):
    return _cmp("lt", a, b)


def le(a, b):
    return _cmp("le", a, b)


def gt(a, b):
    return _cmp("lt", b, a)


def ge(a, b):
    return _cmp("le", b, a)


def eq(a, b):
    a, b = lift(a), lift(b)
    if a.sort == "B" and b.sort == "B":
        return or_(and_(a, b), and_(not_(a), not_(b)))
    return _cmp("eq", a, b)


def ne(a, b):
    return not_(eq(a, b))


def not_(a) -> Expr:
    a = lift(a)
    if a.sort != "B":
        a = ne(a, ZERO)
    if a.op == "bconst":
        return bconst(not a.args[0])
    if a.op == "not":
        return a.args[0]
    return _mk("not", (a,), "B")


def _tobool(a) -> Expr:
    a = lift(a)
    return a if a.sort == "B" else ne(a, ZERO)


def and_(*xs) -> Expr:
    out = []
    seen = set()
    for x in xs:
        x = _tobool(x)
        if x.op == "bconst":
            if not x.args[0]:
                return FALSE
            continue
        parts = x.args if x.op == "and" else (x,)
        for p in parts:
            if p.id not in seen:
                seen.add(p.id)
                out.append(p)
    if not out:
        return TRUE
    if len(out) == 1:
        return out[0]
    out.sort(key=lambda t: t.id)
    return _mk("and", out, "B")


def or_(*xs) -> Expr:
    out = []
    seen = set()
    for x in xs:
        x = _tobool(x)
        if x.op == "bconst":
            if x.args[0]:
                return TRUE
            continue
        parts = x.args if x.op == "or" else (x,)
        for p in parts:
            if p.id not in seen:
                seen.add(p.id)
                out.append(p)
    if not out:
        return FALSE
    if len(out) == 1:
        return out[0]
    out.sort(key=lambda t: t.id)
    return _mk("or", out, "B")


def implies(a, b):
    return or_(not_(a), b)


# ---- evaluation ---------------------------------------------------------------------------------
def evaluate(e: Expr, env: Dict[str, Number], memo: Optional[dict] = None):
    """Evaluate at a concrete assignment (exact Fractions where possible, floats through elementary fns)."""
    if memo is None:
        memo = {}
    stack = [e]
    while stack:
        x = stack[-1]
        if x.id in memo:
            stack.pop()
            continue
        kids = [a for a in x.args if isinstance(a, Expr) and a.id not in memo]
        if kids and x.op != "ite":
            stack.extend(kids)
            continue
        if x.op == "ite":
            c = x.args[0]
            if c.id not in memo:
                stack.append(c)
                continue
            br = x.args[1] if memo[c.id] else x.args[2]
            if br.id not in memo:
                stack.append(br)
                continue
            memo[x.id] = memo[br.id]
            stack.pop()
            continue
        memo[x.id] = _eval1(x, env, memo)
        stack.pop()
    return memo[e.id]


def _eval1(x: Expr, env, memo):
    op = x.op
    if op in ("const", "bconst"):
        return x.args[0]
    if op == "var":
        v = env[x.args[0]]
        if x.sort == "B":
            return bool(v)
        return v if isinstance(v, (Fraction, float)) else rationalize(v)
    a = [memo[k.id] if isinstance(k, Expr) else k for k in x.args]
    if op == "add":
        s = a[0]
        for t in a[1:]:
            s = s + t
        return s
    if op == "mul":
        s = a[0]
        for t in a[1:]:
            s = s * t
        return s
    if op == "div":
        if a[1] == 0:
            return math.nan
        return a[0] / a[1]
    if op == "floor":
        return Fraction(math.floor(a[0]))
    if op == "round":
        return Fraction(round(a[0]))
    if op == "fn":
        try:
            return _FN_EVAL[a[0]](*[float(v) for v in a[1:]])
        except (ValueError, OverflowError, ZeroDivisionError):
            return math.nan
    if op == "lt":
        return a[0] < a[1]
    if op == "le":
        return a[0] <= a[1]
    if op == "eq":
        if isinstance(a[0], float) or isinstance(a[1], float):
            return abs(float(a[0]) - float(a[1])) <= 1e-12 * max(1.0, abs(float(a[0])))
        return a[0] == a[1]
    if op == "not":
        return not a[0]
    if op == "and":
        return all(a)
    if op == "or":
        return any(a)
    raise Unsupported(f"evaluate: {op}")


def free_vars(e: Expr, acc: Optional[dict] = None, seen: Optional[set] = None) -> Dict[str, Expr]:
    if acc is None:
        acc = {}
    if seen is None:
        seen = set()
    stack = [e]
    while stack:
        x = stack.pop()
        if x.id in seen:
            continue
        seen.add(x.id)
        if x.op == "var":
            acc[x.args[0]] = x
        else:
            stack.extend(a for a in x.args if isinstance(a, Expr))
    return acc


def size(e: Expr) -> int:
    seen = set()
    stack = [e]
    while stack:
        x = stack.pop()
        if x.id in seen:
            continue
        seen.add(x.id)
        stack.extend(a for a in x.args if isinstance(a, Expr))
    return len(seen)


def to_str(e: Expr, depth: int = 6) -> str:
    if e.op == "const":
        return str(e.args[0])
    if e.op == "bconst":
        return str(e.args[0])
    if e.op == "var":
        return e.args[0]
    if depth <= 0:
        return "…"
    s = lambda a: to_str(a, depth - 1)
    if e.op == "add":
        return "(" + " + ".join(map(s, e.args)) + ")"
    if e.op == "mul":
        return "*".join(map(s, e.args))
    if e.op == "div":
        return f"({s(e.args[0])}/{s(e.args[1])})"
    if e.op == "fn":
        return f"{e.args[0]}(" + ", ".join(map(s, e.args[1:])) + ")"
    if e.op in ("lt", "le", "eq"):
        sym = {"lt": "<", "le": "<=", "eq": "=="}[e.op]
        return f"({s(e.args[0])} {sym} {s(e.args[1])})"
    return f"{e.op}(" + ", ".join(map(s, e.args)) + ")"
