"""Path exploration: one ``Run`` = one execution of the real code along one decision prefix.

``decide(cond)`` is called whenever the real code coerces a symbolic condition to ``bool``.  Conditions
decided by the ring normaliser or entailed by requires ∧ path are not forks.  Otherwise the branch of
the decision prefix (or, beyond it, the branch the witness takes) is followed, the condition is added
to the path, and the sibling prefix is scheduled if it is feasible (or feasibility is unknown).
"""
from __future__ import annotations

import random
import traceback
from fractions import Fraction
from typing import Callable, Dict, List, Optional

from . import expr as E
from . import smt
from .expr import Expr
from .poly import Ring, TooBig

CURRENT: Optional["Run"] = None


class PathLimit(Exception):
    pass


class Run:
    def __init__(self, prefix: List[bool], seed: int = 0, quick_timeout_ms: int = 800):
        self.prefix = list(prefix)
        self.ctx = smt.Context(timeout_ms=quick_timeout_ms)
        self.ring = Ring()
        self.decisions: List[tuple] = []  # (cond, taken, site)
        self.pending: List[List[bool]] = []
        self.env: Dict[str, Fraction] = {}  # witness
        self.eval_memo: dict = {}
        self.divisors: Dict[int, tuple] = {}
        self.notes: List[str] = []
        self.concretized: List[str] = []
        self.on_witness = True
        self.rng = random.Random(seed)
        self._simp_cache: Dict[int, Optional[bool]] = {}
        self._reduced: Dict[int, Expr] = {}  # condition -> equivalent condition with ring-constant sides folded
        self.requires: List[Expr] = []
        self.max_decisions = 200

    # ---- context manager
    def __enter__(self):
        global CURRENT
        self._prev = CURRENT
        CURRENT = self
        E.set_division_hook(self._on_division)
        return self

    def __exit__(self, *exc):
        global CURRENT
        CURRENT = self._prev
        E.set_division_hook(self._prev._on_division if self._prev else None)
        return False

    def _on_division(self, d: Expr):
        if d.id not in self.divisors:
            site = _site()
            if site != "?":  # divisions executed by the real code (not those inside spec functions)
                self.divisors[d.id] = (d, site)

    # ---- hypotheses
    def assume(self, h, tag: str = ""):
        h = E.lift(h)
        self.requires.append(h)
        self.ctx.assume(h)
        self._simp_cache.clear()

    def path_condition(self) -> List[Expr]:
        return [c if t else E.not_(c) for c, t, _ in self.decisions]

    def hyps(self) -> List[Expr]:
        return list(self.requires) + self.path_condition()

    # ---- witness
    def witness_value(self, e: Expr):
        return E.evaluate(e, self.env, self.eval_memo)

    # ---- simplification / decisions
    def simplify_cond(self, c: Expr, use_smt=True) -> Optional[bool]:
        import time as _time

        self.ring.deadline = _time.process_time() + 5.0
        """use_smt: True = ring + linear hypotheses only (cheap); "full" = also the full (nonlinear) context."""
        if c.op == "bconst":
            return c.args[0]
        k = (c.id, use_smt)
        if k in self._simp_cache:
            return self._simp_cache[k]
        r = self._simplify(c, use_smt)
        self._simp_cache[k] = r
        return r

    def _simplify(self, c: Expr, use_smt) -> Optional[bool]:
        op = c.op
        if op == "not":
            r = self.simplify_cond(c.args[0], use_smt)
            return None if r is None else (not r)
        if op == "and":
            anyu = False
            for a in c.args:
                r = self.simplify_cond(a, use_smt)
                if r is False:
                    return False
                if r is None:
                    anyu = True
            if not anyu:
                return True
        elif op == "or":
            anyu = False
            for a in c.args:
                r = self.simplify_cond(a, use_smt)
                if r is True:
                    return True
                if r is None:
                    anyu = True
            if not anyu:
                return False
        elif op in ("lt", "le", "eq"):
            d = E.sub(c.args[0], c.args[1])
            if E.size(d) < 4000:
                try:
                    v = self.ring.const_value(d)
                except (TooBig, E.Unsupported, ZeroDivisionError):
                    v = None
                if v is not None:
                    return {"lt": v < 0, "le": v <= 0, "eq": v == 0}[op]
                # one side may still be a constant in disguise (e.g. a difference that normalises to zero): replace it
                sides = []
                changed = False
                for a in c.args:
                    if a.op != "const" and E.size(a) < 4000:
                        try:
                            va = self.ring.const_value(a)
                        except (TooBig, E.Unsupported, ZeroDivisionError):
                            va = None
                        if va is not None:
                            a = E.const(va)
                            changed = True
                    sides.append(a)
                if changed:
                    c2 = E._cmp(op, sides[0], sides[1])
                    if c2 is not c:
                        self._reduced[c.id] = c2
                        return self.simplify_cond(c2, use_smt)
        if use_smt:
            try:
                if self.ctx.lin_refutes(E.not_(c)):
                    return True
                if self.ctx.lin_refutes(c):
                    return False
                if use_smt == "full":
                    t = self.ctx.entails(c)
                    if t:
                        return True
                    f = self.ctx.entails(E.not_(c)) if t is not None else None
                    if f:
                        return False
            except E.Unsupported:
                return None
        return None

    def decide(self, c: Expr) -> bool:
        s = self.simplify_cond(c)
        if s is not None:
            return s
        c = self._reduced.get(c.id, c)  # equivalent by a ring identity, easier for the solver
        pos = len(self.decisions)
        if pos >= self.max_decisions:
            raise PathLimit(f"more than {self.max_decisions} decisions on one path")
        site = _site()
        try:
            nat = bool(self.witness_value(c))
        except Exception:
            nat = None
        if pos < len(self.prefix):
            taken = self.prefix[pos]
        else:
            taken = True if nat is None else nat
            if not (self.on_witness and nat is not None):
                # the witness no longer follows this path: make sure the branch is feasible at all
                if self.ctx.feasible(c if taken else E.not_(c)) is False:
                    taken = not taken
            other = E.not_(c) if taken else c
            fo = self.ctx.feasible(other)
            if fo is not False:
                self.pending.append([t for _, t, _ in self.decisions] + [not taken])
        if nat is not None and nat != taken:
            self.on_witness = False
        self.decisions.append((c, taken, site))
        self.ctx.assume(c if taken else E.not_(c))
        self._simp_cache.clear()
        return taken


def decide(c: Expr) -> bool:
    if CURRENT is None:
        raise E.Unsupported("symbolic condition evaluated outside a Run")
    return CURRENT.decide(c)


def simplify_cond(c: Expr) -> Optional[bool]:
    if CURRENT is None:
        return None
    return CURRENT.simplify_cond(c)


def _site() -> str:
    """Innermost stack frame inside /repo (file:line function)."""
    for fr in reversed(traceback.extract_stack(limit=60)):
        if "/src/deepali/" in fr.filename:
            return f"{fr.filename}:{fr.lineno} {fr.name}"
    return "?"
