"""SMT back ends: z3 (python API, primary) and cvc5 (CLI, on z3's unknowns)."""
from __future__ import annotations

import os
import subprocess
import tempfile
import time
from fractions import Fraction
from typing import Dict, List, Optional, Tuple

import z3

from . import expr as E
from .expr import Expr

CVC5 = "/usr/bin/cvc5"


class Translator:
    def __init__(self):
        self.cache: Dict[int, z3.ExprRef] = {}
        self.aux: List[z3.BoolRef] = []
        self.funcs: Dict[Tuple[str, int], z3.FuncDeclRef] = {}
        self.vars: Dict[str, z3.ExprRef] = {}
        self._n = 0

    def fresh_int(self, tag):
        self._n += 1
        return z3.Int(f"__{tag}{self._n}")

    def tr(self, e: Expr):
        cache = self.cache
        r = cache.get(e.id)
        if r is not None:
            return r
        stack = [e]
        while stack:
            x = stack[-1]
            if x.id in cache:
                stack.pop()
                continue
            kids = [a for a in x.args if isinstance(a, Expr) and a.id not in cache]
            if kids:
                stack.extend(kids)
                continue
            cache[x.id] = self._tr1(x)
            stack.pop()
        return cache[e.id]

    def _tr1(self, x: Expr):
        op = x.op
        c = self.cache
        if op == "const":
            f = x.args[0]
            if f.denominator == 1:
                return z3.IntVal(int(f))
            return z3.RealVal(str(f))
        if op == "bconst":
            return z3.BoolVal(x.args[0])
        if op == "var":
            name = x.args[0]
            v = {"R": z3.Real, "I": z3.Int, "B": z3.Bool}[x.sort](name)
            self.vars[name] = v
            return v
        a = [c[k.id] if isinstance(k, Expr) else k for k in x.args]
        if op == "add":
            return z3.Sum(*a) if len(a) > 2 else a[0] + a[1]
        if op == "mul":
            r = a[0]
            for t in a[1:]:
                r = r * t
            return r
        if op == "div":
            n, d = a
            if z3.is_int(n):
                n = z3.ToReal(n)
            if z3.is_int(d):
                d = z3.ToReal(d)
            return n / d
        if op == "floor":
            v = a[0]
            if z3.is_int(v):
                return v
            return z3.ToInt(v)
        if op == "round":
            v = a[0]
            if z3.is_int(v):
                return v
            r = self.fresh_int("round")
            self.aux.append(z3.And(z3.ToReal(r) >= v - z3.RealVal("1/2"), z3.ToReal(r) <= v + z3.RealVal("1/2")))
            return r
        if op == "ite":
            t, f = a[1], a[2]
            if z3.is_int(t) != z3.is_int(f):
                t = z3.ToReal(t) if z3.is_int(t) else t
                f = z3.ToReal(f) if z3.is_int(f) else f
            return z3.If(a[0], t, f)
        if op == "lt":
            return a[0] < a[1]
        if op == "le":
            return a[0] <= a[1]
        if op == "eq":
            return a[0] == a[1]
        if op == "not":
            return z3.Not(a[0])
        if op == "and":
            return z3.And(*a)
        if op == "or":
            return z3.Or(*a)
        if op == "fn":
            name = a[0]
            args = [z3.ToReal(v) if z3.is_int(v) else v for v in a[1:]]
            key = (name, len(args))
            f = self.funcs.get(key)
            if f is None:
                f = z3.Function("uf_" + name, *([z3.RealSort()] * (len(args) + 1)))
                self.funcs[key] = f
            app = f(*args)
            self._axioms(name, app, args, x)
            return app
        raise E.Unsupported(f"smt: {op}")

    def _axioms(self, name, app, args, x: Expr):
        ax = self.aux
        if name in ("sin", "cos"):
            other = "cos" if name == "sin" else "sin"
            key = (other, 1)
            g = self.funcs.get(key)
            if g is None:
                g = z3.Function("uf_" + other, z3.RealSort(), z3.RealSort())
                self.funcs[key] = g
            o = g(*args)
            ax.append(app * app + o * o == 1)
            ax.append(z3.And(app >= -1, app <= 1))
        elif name == "exp":
            ax.append(app > 0)
        elif name == "sqrt":
            ax.append(z3.Implies(args[0] >= 0, z3.And(app >= 0, app * app == args[0])))
        elif name == "tanh":
            ax.append(z3.And(app > -1, app < 1))
        elif name == "sigmoid":
            ax.append(z3.And(app > 0, app < 1))
        elif name == "acos":
            ax.append(z3.And(app >= 0, app <= z3.RealVal("3.1415926535897932385")))


_LIN_CACHE: Dict[int, bool] = {}


def is_linear(e: Expr) -> bool:
    """No products of two non-constant terms, no division by non-constants, no uninterpreted functions."""
    r = _LIN_CACHE.get(e.id)
    if r is not None:
        return r
    ok = True
    stack = [e]
    seen = set()
    while stack:
        x = stack.pop()
        if x.id in seen:
            continue
        seen.add(x.id)
        if x.op == "mul":
            if sum(1 for a in x.args if a.op != "const") > 1:
                ok = False
                break
        elif x.op in ("div", "fn"):
            ok = False
            break
        stack.extend(a for a in x.args if isinstance(a, Expr))
    _LIN_CACHE[e.id] = ok
    return ok


def _frac(v) -> Optional[Fraction]:
    if z3.is_int_value(v):
        return Fraction(v.as_long())
    if z3.is_rational_value(v):
        return Fraction(v.numerator_as_long(), v.denominator_as_long())
    if z3.is_algebraic_value(v):
        a = v.approx(20)
        return Fraction(a.numerator_as_long(), a.denominator_as_long())
    if z3.is_true(v):
        return Fraction(1)
    if z3.is_false(v):
        return Fraction(0)
    return None


class Result:
    __slots__ = ("status", "model", "backend", "time", "reason")

    def __init__(self, status, model=None, backend="", time=0.0, reason=""):
        self.status = status  # 'proved' | 'refuted' | 'unknown'
        self.model = model
        self.backend = backend
        self.time = time
        self.reason = reason


class Context:
    """Hypotheses (requires + path condition) with an incremental z3 solver for feasibility questions."""

    def __init__(self, timeout_ms: int = 2000):
        self.tr = Translator()
        self.hyps: List[Expr] = []
        self.solver = z3.Solver()
        self.solver.set("timeout", timeout_ms)
        # second solver holding only the linear hypotheses: most feasibility questions (sizes >= 2,
        # spacing > 0, ...) are linear consequences, and nlsat is slow once rotations are in the context
        self.lin = z3.Solver()
        self.lin.set("timeout", 300)
        self._naux = 0
        self.queries = 0
        self.time = 0.0

    def _sync_aux(self):
        aux = self.tr.aux
        while self._naux < len(aux):
            self.solver.add(aux[self._naux])
            self._naux += 1

    def assume(self, h: Expr):
        h = E.lift(h)
        if h.op == "bconst" and h.args[0]:
            return
        self.hyps.append(h)
        z = self.tr.tr(h)
        self._sync_aux()
        self.solver.add(z)
        if is_linear(h):
            self.lin.add(z)

    def feasible(self, c: Expr) -> Optional[bool]:
        """Is hyps ∧ c satisfiable?  None = unknown."""
        t0 = time.time()
        z = self.tr.tr(c)
        self._sync_aux()
        if is_linear(c):
            self.lin.push()
            self.lin.add(z)
            r = self.lin.check()
            self.lin.pop()
            if r == z3.unsat:  # infeasible already under the linear hypotheses
                self.queries += 1
                self.time += time.time() - t0
                return False
        self.solver.push()
        self.solver.add(z)
        r = self.solver.check()
        self.solver.pop()
        self.queries += 1
        self.time += time.time() - t0
        if r == z3.sat:
            return True
        if r == z3.unsat:
            return False
        return None

    def lin_refutes(self, c: Expr) -> bool:
        """True iff (linear hypotheses) ∧ c is unsatisfiable - a cheap sufficient test."""
        if not is_linear(c):
            return False
        t0 = time.time()
        z = self.tr.tr(c)
        self._sync_aux()
        self.lin.push()
        self.lin.add(z)
        r = self.lin.check()
        self.lin.pop()
        self.queries += 1
        self.time += time.time() - t0
        return r == z3.unsat

    def entails(self, c: Expr) -> Optional[bool]:
        f = self.feasible(E.not_(c))
        if f is None:
            return None
        return not f


def prove(hyps: List[Expr], goal: Expr, timeout_s: float = 10.0, use_cvc5: bool = True) -> Result:
    """hyps ⊢ goal ?  via z3 then cvc5 on (hyps ∧ ¬goal)."""
    t0 = time.time()
    tr = Translator()
    zs = [tr.tr(h) for h in hyps]
    ng = z3.Not(tr.tr(goal))
    s = z3.Solver()
    s.set("timeout", int(timeout_s * 1000))
    for z in zs + tr.aux:
        s.add(z)
    s.add(ng)
    r = s.check()
    if r == z3.unsat:
        return Result("proved", backend="z3", time=time.time() - t0)
    if r == z3.sat:
        m = s.model()
        model = {}
        for name, v in tr.vars.items():
            model[name] = _frac(m.eval(v, model_completion=True))
        return Result("refuted", model=model, backend="z3", time=time.time() - t0)
    reason = s.reason_unknown()
    if use_cvc5 and os.path.exists(CVC5):
        txt = "(set-logic ALL)\n" + s.to_smt2()
        with tempfile.NamedTemporaryFile("w", suffix=".smt2", delete=False, dir=_scratch()) as f:
            f.write(txt)
            path = f.name
        try:
            p = subprocess.run(
                [CVC5, f"--tlimit={int(timeout_s * 1000)}", "--nl-ext-tplanes", path],
                capture_output=True,
                text=True,
                timeout=timeout_s + 5,
            )
            out = p.stdout.strip().splitlines()
            if out and out[0] == "unsat":
                return Result("proved", backend="cvc5", time=time.time() - t0)
            if out and out[0] == "sat":
                return Result("refuted", model=None, backend="cvc5", time=time.time() - t0)
            reason += " | cvc5: " + (out[0] if out else p.stderr.strip()[:200])
        except subprocess.TimeoutExpired:
            reason += " | cvc5: timeout"
        finally:
            try:
                os.unlink(path)
            except OSError:
                pass
    return Result("unknown", backend="z3+cvc5", time=time.time() - t0, reason=reason)


def _scratch() -> str:
    d = os.environ.get("VERIF_SCRATCH") or os.path.join(os.path.dirname(os.path.dirname(__file__)), ".scratch")
    os.makedirs(d, exist_ok=True)
    return d
