"""./check <property> [--tier quick|thorough] [--replay file] [--only Contract] [--jobs N]

Exit codes: 0 held on everything explored (KNOWN-FINDING lines allowed) / 1 VIOLATION / 2 undecided /
3 machinery failure.  2 and 3 never print a VIOLATION line.
"""
from __future__ import annotations

import argparse
import concurrent.futures as cf
import hashlib
import importlib
import json
import multiprocessing as mp
import os
import re
import sys
import time

ROOT = os.path.dirname(os.path.dirname(os.path.abspath(__file__)))
if ROOT not in sys.path:
    sys.path.insert(0, ROOT)

from vc import runner  # noqa: E402

TRUSTED_BASE = [
    "CPython 3.12 executes the real deepali source (not modelled, executed)",
    "torch 2.14 executes every operation concretely (shapes, dtypes, aliasing, Module/Parameter/subclass protocol, autograd graph are torch's own)",
    "vc/shadow.py: symbolic meaning of each aten operation (textbook real-number semantics); validated against torch's concrete result at the witness on every executed operation while on the witness path",
    "floats are treated as mathematical reals; float constants denote the nearby small-denominator rational (vc/expr.py rationalize)",
    "vc/poly.py ring normaliser (own code, ~450 lines) ; z3 5.1.0 ; cvc5 1.0.3",
    "spec functions in /verif/spec are the meaning of the property statements",
]


def load_findings():
    p = os.path.join(ROOT, "known_findings.json")
    if not os.path.exists(p):
        return {"findings": [], "fixed": []}
    return json.load(open(p))


def finding_matches(f, pid, rec_text):
    if f.get("property") != pid:
        return False
    return re.search(f["match"], rec_text) is not None


def main(argv=None):
    ap = argparse.ArgumentParser()
    ap.add_argument("property")
    ap.add_argument("--tier", default=os.environ.get("VERIF_TIER", "quick"), choices=["quick", "thorough"])
    ap.add_argument("--seed", type=int, default=int(os.environ.get("VERIF_SEED", "0")))
    ap.add_argument("--jobs", type=int, default=int(os.environ.get("VERIF_JOBS", "0")) or min(16, os.cpu_count() or 4))
    ap.add_argument("--only", default=None, help="regex on contract name")
    ap.add_argument("--case", default=None, help="regex on case repr")
    ap.add_argument("--replay", default=None)
    ap.add_argument("--no-evidence", action="store_true")
    ap.add_argument("--write-ledger", action="store_true", help="record the obligations discharged on this (pinned, repaired) tree")
    ap.add_argument("-v", "--verbose", action="store_true")
    args = ap.parse_args(argv)
    pid = args.property
    t0 = time.time()

    import warnings

    warnings.filterwarnings("ignore")
    from contracts import modules_for

    mods = modules_for(pid)
    from vc import contract as C

    for m in mods:
        importlib.import_module(m)
    classes = [c for c in C.REGISTRY.values() if pid in getattr(c, "properties", ())]
    if args.only:
        classes = [c for c in classes if re.search(args.only, c.__name__)]
    if args.replay:
        return do_replay(args.replay, C)
    timeout = 10.0 if args.tier == "quick" else 60.0
    tasks = []
    for cls in classes:
        inst = cls()
        for i, case in enumerate(inst.cases(args.tier)):
            if args.case and not re.search(args.case, repr(case)):
                continue
            nb = getattr(cls, "n_bounded", {"quick": 3, "thorough": 25})
            tasks.append({"module": cls.__module__, "contract": cls.__name__, "case": case, "tier": args.tier, "pid": pid,
                          "seed": args.seed, "timeout": timeout,
                          "n_bounded": nb[args.tier] if isinstance(nb, dict) else nb})
    if not tasks:
        print(f"machinery failure: no contracts/cases registered for {pid}")
        return 3
    results = []
    jobs = max(1, min(args.jobs, len(tasks)))
    if jobs == 1:
        for t in tasks:
            results.append(runner.run_task(t))
    else:
        ctx = mp.get_context("spawn")
        with cf.ProcessPoolExecutor(max_workers=jobs, mp_context=ctx, initializer=runner.worker_init) as ex:
            futs = {ex.submit(runner.run_task, t): t for t in tasks}
            for fut in cf.as_completed(futs):
                t = futs[fut]
                try:
                    results.append(fut.result())
                except Exception as e:  # noqa: BLE001
                    results.append({"contract": t["contract"], "case": runner._jsonable(t["case"]), "error": f"worker crashed: {type(e).__name__}: {e}",
                                    "failed": [], "undecided": [], "helper_failed": [], "mustfail_bad": [], "bounded": {"evaluations": 0, "checked": 0, "rejected": 0, "failures": []},
                                    "obligations": 0, "by_status": {}, "by_backend": {}, "solver_time": 0, "paths": 0, "opaque_ops": {}, "concretized": [], "notes": [],
                                    "ops_validated": 0, "aten_ops": {}, "samples": [], "functions_called": [], "mustfail_ok": 0, "path_outcomes": [], "target": ""})
    results.sort(key=lambda r: (r["contract"], json.dumps(r["case"], sort_keys=True, default=str)))
    return report(pid, args, classes, results, time.time() - t0, C)


def report(pid, args, classes, results, wall, C):
    findings = load_findings()
    os.makedirs(os.path.join(ROOT, "replays", pid), exist_ok=True)

    def okey(r, name):
        return hashlib.sha1(f"{r['contract']}|{json.dumps(r['case'], sort_keys=True, default=str)}|{name}".encode()).hexdigest()[:12]

    ledger_path = os.path.join(ROOT, "ledger", f"{pid}.json")
    if args.write_ledger:
        os.makedirs(os.path.dirname(ledger_path), exist_ok=True)
        keys = sorted({okey(r, n) for r in results for n in r.get("proved_names", [])})
        json.dump({"property": pid, "tier": args.tier, "discharged": keys}, open(ledger_path, "w"))
    ledger = set(json.load(open(ledger_path))["discharged"]) if os.path.exists(ledger_path) else set()
    violations = []
    known_hit = {}
    undecided = []
    machinery = []
    helper_notes = []
    tot = {"obligations": 0, "proved": 0, "paths": 0, "solver_time": 0.0, "bounded_eval": 0, "bounded_checked": 0, "mustfail_ok": 0, "validated": 0}
    by_backend = {}
    opaque = {}
    concretized = []
    samples = []
    aten = {}
    notes = []
    for r in results:
        if r.get("error"):
            machinery.append(f"{r['contract']} {r['case']}: {r['error']}")
        for mb in r.get("mustfail_bad", []):
            machinery.append(f"{r['contract']} {r['case']}: must-fail clause {mb['name']} was not refuted ({mb['status']})")
        tot["obligations"] += r["obligations"]
        tot["proved"] += r["by_status"].get("proved", 0) + r["by_status"].get("must-fail refuted", 0)
        tot["paths"] += r["paths"]
        tot["solver_time"] += r["solver_time"]
        tot["bounded_eval"] += r["bounded"]["evaluations"]
        tot["bounded_checked"] += r["bounded"]["checked"]
        tot["mustfail_ok"] += r.get("mustfail_ok", 0)
        tot["validated"] += r.get("ops_validated", 0)
        for k, v in r["by_backend"].items():
            by_backend[k] = by_backend.get(k, 0) + v
        for k, v in r["opaque_ops"].items():
            opaque[k] = opaque.get(k, 0) + v
        for k, v in r.get("aten_ops", {}).items():
            aten[k] = aten.get(k, 0) + v
        concretized.extend(r["concretized"][:3])
        notes.extend(r["notes"][:3])
        if len(samples) < 6:
            for s in r["samples"][:2]:
                samples.append({"contract": r["contract"], "case": r["case"], **s})
        fails = []
        for f in r["failed"]:
            if not f.get("replay", {}).get("confirmed") and okey(r, f["name"]) not in ledger:
                # refuted symbolically, but the counter-model does not fail on the real code and the obligation is not
                # recorded as discharged on the pinned tree: undecided, never a violation
                undecided.append(f"{r['contract']} {r['case']}: {f['name']}: refuted by {f['backend']} but not reproduced on the real code (not in ledger)")
                continue
            fails.append(("symbolic", f))
        for f in r["bounded"]["failures"]:
            if f.get("kind") in ("property", "frame"):
                fails.append(("bounded", f))
            else:
                helper_notes.append(f"{r['contract']} {r['case']}: helper clause failed at run time: {f.get('clause')}")
        for f in r["helper_failed"]:
            helper_notes.append(f"{r['contract']} {r['case']}: helper obligation {f['name']} {f['status']}: {f['tag']}")
        for u in r["undecided"]:
            undecided.append(f"{r['contract']} {r['case']}: {u.get('name')}: {u.get('tag')} [{u.get('status', '')} {u.get('detail', '')[:200]}]")
        for how, f in fails:
            text = f"{r['contract']}|{json.dumps(r['case'], sort_keys=True, default=str)}|{f.get('name', f.get('tag', ''))}|{f.get('tag', f.get('clause', ''))}|{f.get('site', '')}|{f.get('raised', '')}"
            hit = None
            for kf in findings.get("findings", []):
                if finding_matches(kf, pid, text):
                    hit = kf
                    break
            if hit is not None:
                kh = known_hit.setdefault(hit["id"], {"finding": hit, "count": 0, "count_symbolic": 0})
                kh["count"] += 1
                if how == "symbolic":
                    kh["count_symbolic"] += 1
                continue
            violations.append((how, r, f, text))

    # ---- replay files + VIOLATION lines
    printed = 0
    seen_keys = set()
    for how, r, f, text in violations:
        key = (r["contract"], f.get("name", f.get("tag", f.get("clause"))))
        h = hashlib.sha1(text.encode()).hexdigest()[:10]
        path = os.path.join(ROOT, "replays", pid, f"{r['contract']}-{h}.json")
        confirmed = True if how == "bounded" else bool(f.get("replay", {}).get("confirmed"))
        body = {"property": pid, "contract": r["contract"], "target": r.get("target"), "case": r["case"], "found_by": how,
                "obligation": f.get("name", f.get("tag")), "clause": f.get("tag", f.get("clause")), "site": f.get("site"),
                "status": f.get("status"), "backend": f.get("backend"), "counter_model": f.get("model", f.get("env")),
                "goal": f.get("goal"), "solver_output": f.get("detail"), "replay_on_real_code": f.get("replay", f if how == "bounded" else None),
                "confirmed_on_real_code": confirmed,
                "reproduce": f"cd /verif && ./check {pid} --replay {os.path.relpath(path, ROOT)}"}
        json.dump(body, open(path, "w"), indent=1, default=str)
        if key in seen_keys and printed >= 12:
            continue
        seen_keys.add(key)
        printed += 1
        suffix = "" if confirmed else " no-failing-input-found"
        print(f"VIOLATION property={pid} replay={path}{suffix}")
        print(f"   {r['contract']} case={r['case']} clause: {str(f.get('tag', f.get('clause')))[:200]} [{how}; {f.get('site') or ''}]")
    for kid, kh in known_hit.items():
        print(f"KNOWN-FINDING: property={pid} {kid}: {kh['finding']['what']} ({kh['count']} obligations/inputs)")
    for m in machinery[:10]:
        print("MACHINERY:", m[:1500])
    if args.verbose or (undecided and not violations):
        for u in undecided[:15]:
            print("UNDECIDED:", u[:600])
    if args.verbose:
        for h in helper_notes[:15]:
            print("NOTE:", h[:400])

    fn_info = [C.source_info(c.target) for c in classes if getattr(c, "target", None)]
    level = getattr(__import__("contracts").LEVELS, "get")(pid, "proof")
    n_distinct = len({(r["contract"], json.dumps(r["case"], sort_keys=True, default=str)) for r in results})
    n_known = sum(kh["count_symbolic"] for kh in known_hit.values())
    n_helper = sum(len(r["helper_failed"]) for r in results)
    coverage = {
        # obligations of the claim = all generated, minus those that reproduce a listed known finding and minus failed
        # helper clauses (stronger-than-the-property clauses; reported as notes) - both are counted separately below
        "obligations": tot["obligations"] - n_known - n_helper,
        "obligations_generated": tot["obligations"],
        "known_finding_obligations": n_known,
        "helper_obligations_not_discharged": n_helper,
        "discharged": tot["proved"],
        "checker_cmd": f"cd /verif && ./check {pid} --tier {args.tier}",
        "trusted_base": TRUSTED_BASE,
        "functions_under_contract": fn_info,
        "contracts": sorted({r["contract"] for r in results}),
        "cases": n_distinct,
        "paths": tot["paths"],
        "by_backend": by_backend,
        "solver_time_s": round(tot["solver_time"], 2),
        "must_fail_clauses_refuted": tot["mustfail_ok"],
        "ops_validated_against_torch": tot["validated"],
        "aten_ops_executed": dict(sorted(aten.items(), key=lambda kv: -kv[1])[:40]),
        "opaque_operations": opaque,
        "concretized_scalars": concretized[:10],
        "undecided": undecided[:30],
        "helper_notes": helper_notes[:30],
        "bounded": {"label": "bounded run-time evaluation of the same contracts on seeded concrete inputs (never counted as proved)",
                    "evaluations": tot["bounded_eval"], "clause_checks": tot["bounded_checked"]},
        "evaluations": tot["bounded_eval"] + tot["paths"],
        "distinct_nontrivial": n_distinct,
        "rule": "one case = one (contract, configuration); all feasible paths of each case are explored symbolically; bounded evaluations draw seeded inputs satisfying requires; distinct = distinct (contract, configuration) pairs",
        "samples": samples or [{"note": "no sample"}],
        "known_findings_hit": [k for k in known_hit],
        "exhaustive": True,
    }
    if level != "proof":
        coverage["explanation"] = "bounded run-time contracts only"
    ev = {
        "property_id": pid,
        "tier": args.tier,
        "seed": args.seed,
        "level": level if (tot["obligations"] > 0 or level != "proof") else "exploration",
        "coverage": coverage,
        "assumptions": TRUSTED_BASE + list(getattr(__import__("contracts"), "ASSUMPTIONS", {}).get(pid, [])),
        "wall_s": round(wall, 2),
        "violations": len(violations),
    }
    if not args.no_evidence and not args.only and not args.case:
        os.makedirs(os.path.join(ROOT, "evidence"), exist_ok=True)
        json.dump(ev, open(os.path.join(ROOT, "evidence", f"{pid}.json"), "w"), indent=1, default=str)
    print(f"{pid} [{args.tier}] contracts={len(coverage['contracts'])} cases={n_distinct} paths={tot['paths']} obligations={tot['obligations']} "
          f"discharged={tot['proved']} {by_backend} bounded_evals={tot['bounded_eval']} violations={len(violations)} "
          f"known={len(known_hit)} undecided={len(undecided)} wall={wall:.1f}s")
    if violations:
        return 1
    if machinery:
        return 3
    if tot["obligations"] == 0 and level == "proof":
        print("MACHINERY: zero obligations generated")
        return 3
    if undecided:
        return 2
    return 0


def do_replay(path, C):
    body = json.load(open(path))
    import importlib

    from contracts import modules_for

    for m in modules_for(body["property"]):
        importlib.import_module(m)
    cls = C.REGISTRY[body["contract"]]
    c = cls()
    from fractions import Fraction

    env = {k: (Fraction(v) if isinstance(v, str) and re.fullmatch(r"-?\d+(/\d+)?", v) else v) for k, v in (body.get("counter_model") or {}).items() if v is not None}
    case = body["case"]
    for cs in c.cases("thorough"):
        if runner._jsonable(cs) == case:
            case = cs
            break
    # bounded failures: inputs drawn from the kit's generator are reproduced by its seed
    kit_seed = 0
    if body.get("found_by") == "bounded":
        try:
            kit_seed = int((body.get("replay_on_real_code") or {}).get("seed", 0))
        except (TypeError, ValueError):
            kit_seed = 0
    K = C.Kit("conc", env=env, seed=kit_seed, tol=getattr(cls, "tol", 1e-4))
    try:
        c.run(case, K)
    except C.InputRejected as ex:
        print("input rejected by requires:", ex)
        return 2
    for f in K.failures:
        print("FAILS:", json.dumps(runner._jsonable(f))[:600])
    print(f"replayed {body['contract']} case={case}: {len(K.failures)} failing clause(s) of {K.checked} checked")
    return 1 if K.failures else 0


if __name__ == "__main__":
    sys.exit(main())
