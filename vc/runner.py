"""Runs contracts: symbolic exploration + discharge, counter-model replay, bounded concrete evaluation."""
from __future__ import annotations

import importlib
import json
import os
import re
import sys
import time
import traceback
from fractions import Fraction
from typing import Any, Dict, List

ROOT = os.path.dirname(os.path.dirname(os.path.abspath(__file__)))
if ROOT not in sys.path:
    sys.path.insert(0, ROOT)


def _jsonable(x):
    if isinstance(x, Fraction):
        return str(x)
    if isinstance(x, dict):
        return {str(k): _jsonable(v) for k, v in x.items()}
    if isinstance(x, (list, tuple)):
        return [_jsonable(v) for v in x]
    if isinstance(x, (int, float, str, bool)) or x is None:
        return x
    return repr(x)


def worker_init():
    import warnings

    warnings.filterwarnings("ignore")
    import torch

    torch.set_num_threads(1)


class CaseTimeout(BaseException):
    """wall-clock guard of one (contract, case): raised by SIGALRM inside the worker"""


def run_task(task: dict) -> dict:
    """Wall-clock guard around one case: a case that does not finish within the limit (pathological expression growth on a
    changed tree, a solver call that ignores its timeout) is reported as undecided instead of blocking the whole check."""
    import signal

    limit = int(task.get("wall_limit", 420 if task.get("tier") == "quick" else 2700))

    def _alarm(signum, frame):
        raise CaseTimeout()

    try:
        old = signal.signal(signal.SIGALRM, _alarm)
        signal.alarm(limit)
        guarded = True
    except (ValueError, AttributeError):  # not in the main thread of the process
        guarded = False
    try:
        return _run_task(task)
    except CaseTimeout:
        timed_out = {"name": "case", "tag": f"wall-clock limit of {limit} s for one case exceeded in the symbolic phase", "kind": "property", "status": "timeout"}
        # the bounded stand-in of the same contract still runs (it is cheap and decides violations on concrete inputs)
        try:
            signal.alarm(max(60, limit // 3))
            res = _run_task(dict(task, bounded_only=True))
            res["undecided"].append(timed_out)
            return res
        except CaseTimeout:
            pass
        return {"contract": task["contract"], "case": _jsonable(task["case"]), "target": "", "error": None,
                "failed": [], "helper_failed": [], "mustfail_bad": [],
                "undecided": [{"name": "case", "tag": f"wall-clock limit of {limit} s for one case exceeded", "kind": "property", "status": "timeout"}],
                "bounded": {"evaluations": 0, "checked": 0, "rejected": 0, "failures": []},
                "obligations": 0, "proved": 0, "by_status": {}, "by_backend": {}, "solver_time": 0, "paths": 0, "opaque_ops": {}, "concretized": [],
                "notes": [], "ops_validated": 0, "aten_ops": {}, "samples": [], "functions_called": [], "mustfail_ok": 0, "path_outcomes": [],
                "proved_names": [], "wall": float(limit)}
    finally:
        if guarded:
            signal.alarm(0)
            signal.signal(signal.SIGALRM, old)


def _run_task(task: dict) -> dict:
    """One (contract, case).  Executed in a worker process."""
    import warnings

    warnings.filterwarnings("ignore")
    import torch

    torch.set_num_threads(1)
    global ATTRIB_PID
    ATTRIB_PID = task.get("pid")
    from . import contract as C
    from . import explore, shadow
    from . import expr as E
    from .poly import TooBig

    t_start = time.time()
    importlib.import_module(task["module"])
    cls = C.REGISTRY[task["contract"]]
    c = cls()
    case = task["case"]
    tier = task["tier"]
    seed = task["seed"]
    timeout = task["timeout"]
    res: Dict[str, Any] = {
        "contract": task["contract"],
        "target": getattr(cls, "target", ""),
        "case": _jsonable(case),
        "paths": 0,
        "path_outcomes": [],
        "obligations": 0,
        "by_status": {},
        "by_backend": {},
        "solver_time": 0.0,
        "failed": [],
        "undecided": [],
        "helper_failed": [],
        "mustfail_ok": 0,
        "mustfail_bad": [],
        "opaque_ops": {},
        "concretized": [],
        "notes": [],
        "ops_validated": 0,
        "aten_ops": {},
        "bounded": {"evaluations": 0, "checked": 0, "rejected": 0, "failures": []},
        "error": None,
        "samples": [],
        "functions_called": [],
        "proved_names": [],
    }

    def bump(d, k, n=1):
        d[k] = d.get(k, 0) + n

    symbolic = getattr(cls, "symbolic", True) and not task.get("bounded_only")
    confirmed_violation = False
    budget = task.get("solver_budget", 90.0 if tier == "quick" else 1200.0)  # per (contract, case), then cheap back ends only
    # ---------------------------------------------------------------- symbolic
    if symbolic:
        pending: List[List[bool]] = [[]]
        max_paths = getattr(cls, "max_paths", 64)
        wseed = seed
        while pending:
            if res["paths"] >= max_paths:
                res["notes"].append(f"path limit {max_paths} reached; {len(pending)} prefixes unexplored")
                res["error"] = res["error"] or None
                res["undecided"].append({"name": "paths", "tag": "path limit reached", "kind": "property"})
                break
            prefix = pending.pop()
            K = None
            outcome = "ok"
            for attempt in range(60):
                run = explore.Run(prefix, seed=wseed)
                try:
                    with run:
                        with shadow.Session(run, validate=True) as st:
                            K = C.Kit("sym", run, st, seed=wseed)
                            c.run(case, K)
                    break
                except C.InputRejected:
                    wseed += 1
                    K = None
                    continue
                except (E.Unsupported, explore.PathLimit, TooBig) as ex:
                    outcome = f"unsupported: {type(ex).__name__}: {ex}"
                    break
                except shadow.ModelMismatch as ex:
                    outcome = f"model-mismatch: {ex}"
                    res["error"] = outcome
                    break
                except Exception as ex:  # contract/machinery bug
                    outcome = f"machinery: {type(ex).__name__}: {ex}"
                    res["error"] = outcome + "\n" + traceback.format_exc(limit=8)
                    break
            else:
                res["error"] = "no witness satisfying requires found in 60 draws"
                break
            res["paths"] += 1
            res["path_outcomes"].append({"prefix": "".join("T" if b else "F" for b in prefix), "outcome": outcome,
                                         "decisions": [f"{'T' if t else 'F'} {s}" for _, t, s in run.decisions][:12]})
            if res["error"]:
                break
            pending.extend(run.pending)
            if K is None:
                continue
            if outcome != "ok":
                res["undecided"].append({"name": "path", "tag": outcome, "kind": "property", "prefix": prefix})
                continue
            for k, v in st.opaque_ops.items():
                bump(res["opaque_ops"], k, v)
            for k, v in st.op_count.items():
                bump(res["aten_ops"], k, v)
            res["ops_validated"] += st.validated
            res["concretized"].extend(run.concretized)
            res["notes"].extend(K.notes)
            res["functions_called"] = sorted(set(res["functions_called"]) | set(K.calls))
            # division safety obligations
            hy = run.hyps()
            for d, site in run.divisors.values():
                if d.op == "const":
                    continue
                ob = C.Ob(f"defined[{len(K.obs)}]", "helper", f"divisor non-zero at {site}", E.ne(d, E.ZERO), hy, site)
                K.obs.append(ob)
            for ob in K.obs:
                ob.kind = attribute(ob.kind, ob.tag)
                if ob.must_fail and (not run.on_witness or st.opaque_ops):
                    continue  # vacuity guards are evaluated on the witness path of each case (and need full semantics)
                with run:
                    # once a violation of this case is confirmed, later obligations get the cheap back ends only
                    C.discharge(ob, run, K, timeout, cheap_only=confirmed_violation or res["solver_time"] > budget)
                res["obligations"] += 1
                res["solver_time"] += ob.time
                bump(res["by_backend"], ob.backend)
                if ob.must_fail:
                    if ob.status == "skipped":
                        res["obligations"] -= 1
                        continue
                    if ob.status == "refuted":
                        res["mustfail_ok"] += 1
                        bump(res["by_status"], "must-fail refuted")
                    else:
                        res["mustfail_bad"].append({"name": ob.name, "status": ob.status})
                        bump(res["by_status"], "must-fail NOT refuted")
                    continue
                bump(res["by_status"], ob.status)
                if len(res["samples"]) < 3 and ob.status == "proved" and ob.backend != "trivial":
                    res["samples"].append({"obligation": ob.name, "clause": ob.tag, "goal": E.to_str(ob.goal, 5)[:300],
                                           "hyps": len(ob.hyps), "backend": ob.backend})
                if ob.status == "proved":
                    res["proved_names"].append(ob.name)
                    continue
                rec = {"name": ob.name, "kind": ob.kind, "tag": ob.tag, "status": ob.status, "backend": ob.backend,
                       "site": ob.site, "detail": ob.detail[-1500:], "model": _jsonable(ob.model),
                       "goal": E.to_str(ob.goal, 5)[:400], "prefix": "".join("T" if b else "F" for b in prefix)}
                if ob.status == "skipped":
                    res["obligations"] -= 1  # not attempted (budget / after a confirmed violation)
                    if not confirmed_violation and ob.kind in ("property", "frame") and not ob.must_fail:
                        res["undecided"].append({"name": ob.name, "tag": ob.tag, "kind": ob.kind, "status": "skipped", "detail": "solver budget of this case exhausted"})
                    continue
                if ob.status == "refuted":
                    # replay the counter-model on the real code (concrete mode)
                    rec["replay"] = _replay(c, case, C, ob, seed)
                    if rec["replay"].get("confirmed") and ob.kind in ("property", "frame"):
                        confirmed_violation = True
                    (res["failed"] if ob.kind in ("property", "frame") else res["helper_failed"]).append(rec)
                else:
                    (res["undecided"] if ob.kind in ("property", "frame") else res["helper_failed"]).append(rec)
    # ---------------------------------------------------------------- bounded (concrete) evaluation
    n = task.get("n_bounded", 0)
    tries = 0
    done = 0
    while done < n and tries < n * 20:
        tries += 1
        K = C.Kit("conc", seed=seed * 100003 + tries, tol=getattr(cls, "tol", 1e-4))
        try:
            c.run(case, K)
        except C.InputRejected:
            res["bounded"]["rejected"] += 1
            continue
        except Exception as ex:  # noqa: BLE001
            res["error"] = (res["error"] or "") + f"bounded machinery: {type(ex).__name__}: {ex}\n" + traceback.format_exc(limit=6)
            break
        done += 1
        res["bounded"]["evaluations"] += 1
        res["bounded"]["checked"] += K.checked
        res["functions_called"] = sorted(set(res["functions_called"]) | set(K.calls))
        if done == 1 and not res["samples"]:
            res["samples"].append({"bounded_input": _jsonable({k: K.env[k] for k in list(K.env)[:12]})})
        for f in K.failures:
            f = dict(f)
            f["kind"] = attribute(f.get("kind"), f.get("clause"))
            f["env"] = _jsonable(K.env)
            f["seed"] = seed * 100003 + tries
            res["bounded"]["failures"].append(_jsonable(f))
        if len(res["bounded"]["failures"]) > 20:
            break
    res["wall"] = time.time() - t_start
    return res


FOREIGN_AS_HELPER = {"C15"}
ATTRIB_PID = None


def attribute(kind, text):
    """C15 runs contracts of other properties for the frame obligations their calls generate; clauses that state another
    property ("C08: ...") are not decided by the C15 check - they count as helper clauses there."""
    if ATTRIB_PID in FOREIGN_AS_HELPER and kind == "property":
        m = re.match(r"\s*(C\d\d)\b", text or "")
        if not (m and m.group(1) == ATTRIB_PID):
            return "helper"
    return kind


def _replay(c, case, C, ob, seed) -> dict:
    """Run the contract in concrete mode at the counter-model; report whether the real code fails the same clause."""
    out = {"confirmed": False, "failures": []}
    if ob.model is None:
        out["note"] = "solver gave no model"
        return out
    try:
        K = C.Kit("conc", env=ob.model, seed=seed, tol=getattr(type(c), "tol", 1e-4))
        c.run(case, K)
        base = ob.name.split("[")[0].split("#")[0]
        for f in K.failures:
            f["kind"] = attribute(f.get("kind"), f.get("clause"))
            out["failures"].append(_jsonable(f))
            if f.get("kind") in ("property", "frame"):
                out["confirmed"] = True
        out["env"] = _jsonable(K.env)
    except C.InputRejected as ex:
        out["note"] = f"counter-model rejected by requires when made concrete: {ex}"
    except Exception as ex:  # noqa: BLE001
        out["note"] = f"replay error {type(ex).__name__}: {ex}"
    return out
