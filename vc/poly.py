"""Ring back end: exact normaliser for the equational theory of fields.

``Ring.normal(e)`` converts an :class:`vc.expr.Expr` into a rational function ``num / prod(f_i^k_i)``
with ``num`` a sparse polynomial over Q in *atoms* (variables and opaque non-polynomial subterms:
floor/round/ite/uninterpreted function applications, keyed by the normal form of their arguments).
``a == b`` is discharged iff the numerator of ``a - b`` expands to the zero polynomial (modulo the
declared side relations ``x^2 -> p``).  Sound for every value of the opaque atoms; a "no" is *not* a
refutation.  Denominators being non-zero is a separate obligation (recorded at division time by
vc.expr's division hook).
"""
from __future__ import annotations

import math
from fractions import Fraction
from typing import Dict, List, Optional, Tuple

from . import expr as E
from .expr import Expr

Mono = Tuple[Tuple[int, int], ...]  # ((atom, exp), ...) sorted by atom
Poly = Dict[Mono, Fraction]


class TooBig(Exception):
    pass


MAX_TERMS = 150_000


def p_const(c) -> Poly:
    c = Fraction(c)
    return {(): c} if c != 0 else {}


def p_atom(a: int) -> Poly:
    return {((a, 1),): Fraction(1)}


def p_add(p: Poly, q: Poly, k: Fraction = Fraction(1)) -> Poly:
    if len(p) < len(q) and k == 1:
        p, q = q, p
    r = dict(p)
    for m, c in q.items():
        v = r.get(m)
        if v is None:
            r[m] = c * k
        else:
            v = v + c * k
            if v == 0:
                del r[m]
            else:
                r[m] = v
    return r


def m_mul(a: Mono, b: Mono) -> Mono:
    if not a:
        return b
    if not b:
        return a
    out = []
    i = j = 0
    la, lb = len(a), len(b)
    while i < la and j < lb:
        x, y = a[i], b[j]
        if x[0] == y[0]:
            out.append((x[0], x[1] + y[1]))
            i += 1
            j += 1
        elif x[0] < y[0]:
            out.append(x)
            i += 1
        else:
            out.append(y)
            j += 1
    out.extend(a[i:])
    out.extend(b[j:])
    return tuple(out)


def p_mul_raw(p: Poly, q: Poly) -> Poly:
    if not p or not q:
        return {}
    if len(p) * len(q) > MAX_TERMS * 4:
        raise TooBig()
    r: Poly = {}
    for m1, c1 in p.items():
        for m2, c2 in q.items():
            m = m_mul(m1, m2)
            v = r.get(m)
            if v is None:
                r[m] = c1 * c2
            else:
                v = v + c1 * c2
                if v == 0:
                    del r[m]
                else:
                    r[m] = v
    if len(r) > MAX_TERMS:
        raise TooBig()
    return r


def p_scale(p: Poly, k: Fraction) -> Poly:
    if k == 0:
        return {}
    if k == 1:
        return p
    return {m: c * k for m, c in p.items()}


def p_is_const(p: Poly) -> Optional[Fraction]:
    if not p:
        return Fraction(0)
    if len(p) == 1 and () in p:
        return p[()]
    return None


def p_key(p: Poly):
    return tuple(sorted(p.items()))


class Rat:
    __slots__ = ("num", "den")

    def __init__(self, num: Poly, den: Dict[tuple, int]):
        self.num = num
        self.den = den  # factor key -> exponent ; factor polys in Ring.factors


class Ring:
    def __init__(self):
        self.deadline: Optional[float] = None  # wall-clock limit for one normalisation (TooBig when exceeded)
        self.memo: Dict[int, Rat] = {}
        self.atoms: Dict[tuple, int] = {}  # atom key -> atom index
        self.atom_expr: List[Expr] = []
        self.relations: Dict[int, Poly] = {}  # atom -> poly replacing atom^2
        self.factors: Dict[tuple, Poly] = {}

    # ---- atoms
    def atom(self, key, e: Expr) -> int:
        a = self.atoms.get(key)
        if a is None:
            a = len(self.atom_expr)
            self.atoms[key] = a
            self.atom_expr.append(e)
        return a

    def add_square_relation(self, v: Expr, replacement: Expr):
        """Declare v^2 = replacement (v a variable/atom expression; replacement polynomial)."""
        rv = self.normal(v)
        assert not rv.den and len(rv.num) == 1
        ((mono, c),) = rv.num.items()
        assert c == 1 and len(mono) == 1 and mono[0][1] == 1
        rr = self.normal(replacement)
        assert not rr.den, "relation replacement must be polynomial"
        self.relations[mono[0][0]] = rr.num
        self.memo.clear()

    # ---- polynomial product with relation reduction
    def p_mul(self, p: Poly, q: Poly) -> Poly:
        r = p_mul_raw(p, q)
        if self.relations:
            r = self.reduce(r)
        return r

    def reduce(self, p: Poly) -> Poly:
        rel = self.relations
        while True:
            bad = [m for m in p if any(a in rel and k >= 2 for a, k in m)]
            if not bad:
                return p
            r = {m: c for m, c in p.items() if m not in set(bad)}
            for m in bad:
                c = p[m]
                rest = []
                repl: Poly = {(): Fraction(1)}
                for a, k in m:
                    if a in rel and k >= 2:
                        h, k2 = divmod(k, 2)
                        for _ in range(h):
                            repl = p_mul_raw(repl, rel[a])
                        if k2:
                            rest.append((a, 1))
                    else:
                        rest.append((a, k))
                term = p_mul_raw({tuple(rest): c}, repl)
                r = p_add(r, term)
            p = r

    # ---- rational functions
    def _factor_of(self, p: Poly) -> Tuple[Fraction, Dict[tuple, int]]:
        """Split polynomial p (non-zero) into scalar * product of registered factors."""
        if len(p) == 1:
            ((m, c),) = p.items()
            d = {}
            for a, k in m:
                fk = (((((a, 1),), Fraction(1))),)
                self.factors.setdefault(fk, {((a, 1),): Fraction(1)})
                d[fk] = k
            return c, d
        lead = max(p)  # deterministic leading monomial
        c = p[lead]
        q = p_scale(p, 1 / c)
        fk = p_key(q)
        self.factors.setdefault(fk, q)
        return c, {fk: 1}

    def _den_poly(self, den: Dict[tuple, int], minus: Optional[Dict[tuple, int]] = None) -> Poly:
        r: Poly = {(): Fraction(1)}
        for fk, k in den.items():
            if minus:
                k = k - minus.get(fk, 0)
            for _ in range(k):
                r = self.p_mul(r, self.factors[fk])
        return r

    def r_add(self, a: Rat, b: Rat, k: Fraction = Fraction(1)) -> Rat:
        if not b.num:
            return a
        if not a.num and k == 1:
            return b
        if a.den == b.den:
            return self._cancel(Rat(p_add(a.num, b.num, k), a.den))
        L = dict(a.den)
        for fk, e in b.den.items():
            if L.get(fk, 0) < e:
                L[fk] = e
        na = self.p_mul(a.num, self._den_poly(L, a.den))
        nb = self.p_mul(b.num, self._den_poly(L, b.den))
        return self._cancel(Rat(p_add(na, nb, k), L))

    def r_mul(self, a: Rat, b: Rat) -> Rat:
        if not a.num or not b.num:
            return Rat({}, {})
        den = dict(a.den)
        for fk, e in b.den.items():
            den[fk] = den.get(fk, 0) + e
        return self._cancel(Rat(self.p_mul(a.num, b.num), den))

    def r_inv(self, a: Rat) -> Rat:
        if not a.num:
            raise ZeroDivisionError("division by an expression that normalises to zero")
        c, d = self._factor_of(a.num)
        return self._cancel(Rat(p_scale(self._den_poly(a.den), 1 / c), d))

    def _cancel(self, r: Rat) -> Rat:
        """Cancel single-variable denominator factors against the monomial content of the numerator,
        and whole-polynomial factors when the numerator is exactly a multiple of one term."""
        if not r.num:
            return Rat({}, {})
        if not r.den:
            return r
        den = r.den
        num = r.num
        # monomial content
        content = None
        for m in num:
            d = dict(m)
            if content is None:
                content = d
            else:
                content = {a: min(k, d[a]) for a, k in content.items() if a in d}
            if not content:
                break
        changed = False
        if content:
            newden = dict(den)
            use = {}
            for fk, e in den.items():
                if len(fk) == 1 and len(fk[0][0]) == 1 and fk[0][0][0][1] == 1 and fk[0][1] == 1:
                    a = fk[0][0][0][0]
                    if a in content:
                        k = min(e, content[a])
                        use[a] = k
                        if e - k:
                            newden[fk] = e - k
                        else:
                            del newden[fk]
            if use:
                changed = True
                nn: Poly = {}
                for m, c in num.items():
                    mm = tuple((a, k - use.get(a, 0)) for a, k in m if k - use.get(a, 0) > 0)
                    nn[mm] = c
                num, den = nn, newden
        # exact division by multi-term factors (cheap test: number of terms compatible)
        if den:
            for fk in list(den):
                if len(fk) > 1:
                    f = self.factors[fk]
                    while den.get(fk, 0) > 0 and len(num) >= len(f):
                        q = _exact_div(num, f)
                        if q is None:
                            break
                        num = q
                        changed = True
                        if den[fk] == 1:
                            den = {k: v for k, v in den.items() if k != fk}
                        else:
                            den = dict(den)
                            den[fk] -= 1
        return Rat(num, den) if changed else r

    # ---- Expr -> Rat
    def normal(self, e: Expr) -> Rat:
        # installing a side relation clears the memo while a traversal is running; entries of already finished
        # sub-terms are then missing when their parent is assembled -> restart the traversal (relations persist)
        for _ in range(50):
            try:
                return self._normal(e)
            except KeyError:
                continue
        return self._normal(e)

    def _normal(self, e: Expr) -> Rat:
        memo = self.memo
        r = memo.get(e.id)
        if r is not None:
            return r
        stack = [e]
        import time as _time

        while stack:
            x = stack[-1]
            if x.id in memo:
                stack.pop()
                continue
            if self.deadline is not None and _time.process_time() > self.deadline:
                raise TooBig()
            op = x.op
            if op in ("add", "mul", "div"):
                kids = [a for a in x.args if a.id not in memo]
                if kids:
                    stack.extend(kids)
                    continue
                if op == "add":
                    acc = Rat({}, {})
                    # group by identical denominators first (cheap)
                    for a in x.args:
                        acc = self.r_add(acc, memo[a.id])
                    memo[x.id] = acc
                elif op == "mul":
                    acc = memo[x.args[0].id]
                    for a in x.args[1:]:
                        acc = self.r_mul(acc, memo[a.id])
                    memo[x.id] = acc
                else:
                    memo[x.id] = self.r_mul(memo[x.args[0].id], self.r_inv(memo[x.args[1].id]))
            elif op == "const":
                memo[x.id] = Rat(p_const(x.args[0]), {})
            elif op == "var":
                if x.sort == "B":
                    raise E.Unsupported("boolean variable in arithmetic position")
                memo[x.id] = Rat(p_atom(self.atom(("var", x.args[0]), x)), {})
            elif op in ("floor", "round"):
                a = x.args[0]
                if a.id not in memo:
                    stack.append(a)
                    continue
                cv = self._const_of(memo[a.id])
                if cv is not None:  # floor / round of something that normalises to a constant
                    memo[x.id] = Rat(p_const(Fraction(math.floor(cv) if op == "floor" else round(cv))), {})
                else:
                    memo[x.id] = Rat(p_atom(self.atom((op, self.key(memo[a.id])), x)), {})
            elif op == "fn":
                kids = [a for a in x.args[1:] if a.id not in memo]
                if kids:
                    stack.extend(kids)
                    continue
                name = x.args[0]
                if name == "sqrt":
                    # sqrt of an argument that normalises to a non-negative rational square is that rational
                    ra = memo[x.args[1].id]
                    cv = self._const_of(ra)
                    if cv is not None and cv >= 0:
                        rn, rd = math.isqrt(cv.numerator), math.isqrt(cv.denominator)
                        if rn * rn == cv.numerator and rd * rd == cv.denominator:
                            memo[x.id] = Rat(p_const(Fraction(rn, rd)), {})
                            stack.pop()
                            continue
                key = (op, name) + tuple(self.key(memo[a.id]) for a in x.args[1:])
                known = key in self.atoms
                at = self.atom(key, x)
                memo[x.id] = Rat(p_atom(at), {})
                if not known:
                    self._install_relations(name, x, at, key)
            elif op == "ite":
                c, a, b = x.args
                if c.op == "le" and c.args[0] is E.ZERO and c.args[1] is a and b is E.neg(a):
                    # |a|: one atom per normal form of a up to a positive constant factor and sign
                    if a.id not in memo:
                        stack.append(a)
                        continue
                    ra = memo[a.id]
                    cv = self._const_of(ra)
                    if cv is not None:
                        memo[x.id] = Rat(p_const(abs(cv)), {})
                    elif not ra.den:
                        lead = ra.num[max(ra.num, key=_lexkey)]
                        monic = p_scale(ra.num, 1 / lead)
                        at = self.atom(("abs", p_key(monic)), x)
                        memo[x.id] = Rat(p_scale(p_atom(at), abs(lead)), {})
                    else:
                        memo[x.id] = Rat(p_atom(self.atom(("abs", self.key(ra)), x)), {})
                else:
                    memo[x.id] = Rat(p_atom(self.atom(("ite", x.id), x)), {})
            else:
                raise E.Unsupported(f"ring: {op} in arithmetic position")
            stack.pop()
        return memo[e.id]

    def _install_relations(self, name, x: Expr, at: int, key):
        if name == "sqrt":
            ra = self.memo[x.args[1].id]
            if not ra.den:
                self.relations[at] = ra.num
                self.memo_clear_keep_atoms()
        elif name == "sin":
            ckey = ("fn", "cos") + key[2:]
            ca = self.atom(ckey, E.fn("cos", x.args[1]))
            self.relations[at] = p_add(p_const(1), {((ca, 2),): Fraction(-1)})
            self.memo_clear_keep_atoms()

    def memo_clear_keep_atoms(self):
        # relations changed: cached products may contain unreduced squares
        self.memo.clear()  # in place: normal() holds a reference while it runs and re-derives what it still needs

    def key(self, r: Rat):
        return (p_key(r.num), tuple(sorted(r.den.items())))

    # ---- back to expressions
    def _poly_expr(self, p: Poly) -> Expr:
        terms = []
        for m, c in sorted(p.items(), key=lambda kv: _lexkey(kv[0])):
            fs = [E.const(c)]
            for a, k in m:
                fs.extend([self.atom_expr[a]] * k)
            terms.append(E.mul(*fs))
        return E.add(*terms) if terms else E.ZERO

    def simplified(self, e: Expr) -> Expr:
        """An expression equal to e (as a rational function of the atoms) rebuilt from its normal form: cancels what the
        ring can cancel (R^T R, s / s, ...) so that e.g. a coordinate that is linear in the free symbols also looks linear."""
        r = self.normal(e)
        num = self._poly_expr(self.reduce(r.num) if self.relations else r.num)
        if not r.den:
            return num
        den = E.ONE
        for fk, k in r.den.items():
            f = self._poly_expr(self.factors[fk])
            for _ in range(k):
                den = E.mul(den, f)
        return E.div(num, den)

    # ---- queries
    def is_zero(self, e: Expr) -> bool:
        r = self.normal(e)
        num = self.reduce(r.num) if self.relations else r.num
        return not num

    def prove_eq(self, a: Expr, b: Expr) -> bool:
        if a is b:
            return True
        return self.is_zero(E.sub(a, b))

    def const_value(self, e: Expr) -> Optional[Fraction]:
        return self._const_of(self.normal(e))

    def _const_of(self, r: "Rat") -> Optional[Fraction]:
        num = self.reduce(r.num) if self.relations else r.num
        if not num:
            return Fraction(0)
        if not r.den:
            return p_is_const(num)
        d = self._den_poly(r.den)
        # num == c * d ?
        lead = max(d)
        if lead not in num:
            return None
        c = num[lead] / d[lead]
        if p_add(num, d, -c):
            return None
        return c


def _lexkey(m: Mono):
    return tuple((-a, k) for a, k in m)


def _exact_div(num: Poly, f: Poly) -> Optional[Poly]:
    """Exact multivariate division num / f (lexicographic leading terms); None if not divisible."""
    lf = max(f, key=_lexkey)
    cf = f[lf]
    dlf = dict(lf)
    rem = dict(num)
    q: Poly = {}
    steps = 0
    while rem:
        steps += 1
        if steps > 5000:
            return None
        lm = max(rem, key=_lexkey)
        d = dict(lm)
        ok = all(d.get(a, 0) >= k for a, k in dlf.items())
        if not ok:
            return None
        mq = tuple(sorted((a, k - dlf.get(a, 0)) for a, k in d.items() if k - dlf.get(a, 0) > 0))
        cq = rem[lm] / cf
        q[mq] = q.get(mq, 0) + cq
        sub = {m_mul(m, mq): c * cq for m, c in f.items()}
        rem = p_add(rem, sub, Fraction(-1))
    return q
