"""Contracts on the real functions, and the three evaluators of one contract text.

A contract is a class with

* ``target``       ``"deepali.core.grid:Grid.transform"`` - the real function under contract,
* ``properties``   ids of the properties whose statement its *property* clauses transcribe,
* ``cases(tier)``  the finite configuration space (enumerated exhaustively),
* ``run(case, K)`` builds the inputs through the kit ``K`` (symbolic values + ``K.assume`` = requires),
                   calls the real function with ``K.call`` (frame = modifies nothing unless stated) and
                   states the postconditions with ``K.ensure_*`` (compared with spec functions).

The same ``run`` text is evaluated by

1. **symbolic mode**  - the real code runs under :mod:`vc.shadow`; every ``ensure`` becomes one obligation
   per scalar component, ``requires ∧ path ⇒ clause``, for every feasible path; discharged by ring / z3 / cvc5;
2. **concrete mode**  - the real code runs on plain torch with the variables bound to numbers: used to
   *replay* a counter-model against the real code, and as the **bounded** run-time check over seeded inputs.
"""
from __future__ import annotations

import hashlib
import importlib
import inspect
import math
import random
import time
import traceback
from fractions import Fraction
from typing import Any, Callable, Dict, List, Optional, Sequence

import numpy as np
import torch

from . import explore, shadow, smt
from . import expr as E
from .expr import Expr, Unsupported
from .poly import TooBig

REGISTRY: Dict[str, type] = {}


def register(cls):
    REGISTRY[cls.__name__] = cls
    return cls


class Raised:
    def __init__(self, exc: BaseException, tb: str, site: str):
        self.exc, self.tb, self.site = exc, tb, site

    def __repr__(self):
        return f"Raised({type(self.exc).__name__}: {self.exc} at {self.site})"


class Ob:
    __slots__ = ("name", "kind", "tag", "goal", "hyps", "site", "status", "backend", "time", "model", "detail", "must_fail")

    def __init__(self, name, kind, tag, goal, hyps, site="", must_fail=False):
        self.name, self.kind, self.tag, self.goal, self.hyps, self.site = name, kind, tag, goal, hyps, site
        self.status = "open"
        self.backend = ""
        self.time = 0.0
        self.model = None
        self.detail = ""
        self.must_fail = must_fail


class InputRejected(Exception):
    """Concrete input does not satisfy requires."""


def _site_of(exc: BaseException) -> str:
    tb = traceback.extract_tb(exc.__traceback__)
    for fr in reversed(tb):
        if "/src/deepali/" in fr.filename:
            return f"{fr.filename}:{fr.lineno} {fr.name}"
    return "?"


class Kit:
    def __init__(self, mode: str, run: Optional[explore.Run] = None, st: Optional[shadow.State] = None,
                 env: Optional[Dict[str, Any]] = None, seed: int = 0, tol: float = 1e-4):
        assert mode in ("sym", "conc")
        self.mode = mode
        self.run = run
        self.st = st
        self.env: Dict[str, Any] = run.env if run is not None else {}
        self.fixed_env = dict(env or {})
        self.rng = random.Random(seed)
        self.obs: List[Ob] = []
        self.vars: Dict[str, tuple] = {}  # name -> (sort, lo, hi)
        self.requires: List[Expr] = []
        self.tol = tol
        self.failures: List[dict] = []  # concrete mode
        self.checked = 0
        self._names: Dict[str, int] = {}
        self.calls: List[str] = []
        self.notes: List[str] = []

    # ---- variables ---------------------------------------------------------------------------------
    def _draw(self, sort, lo, hi):
        r = self.rng
        if sort == "I":
            lo = -3 if lo is None else lo
            hi = lo + 9 if hi is None else hi
            return Fraction(r.randint(int(lo), int(hi)))
        lo = Fraction(-2) if lo is None else Fraction(lo)
        hi = lo + 4 if hi is None else Fraction(hi)
        k = r.randint(1, 63)
        return lo + (hi - lo) * Fraction(k, 64)

    def _var(self, name, sort, lo, hi, witness, draw=None):
        dlo, dhi = draw if draw is not None else (lo, hi)
        if dlo is None:
            dlo = lo
        if dhi is None:
            dhi = hi
        self.vars[name] = (sort, dlo, dhi)
        v = E.var(name, sort)
        if name in self.fixed_env and self.fixed_env[name] is not None:
            val = self.fixed_env[name]
            val = Fraction(val) if not isinstance(val, float) else E.rationalize(val)
            if sort == "I" and val.denominator != 1:
                val = Fraction(round(val))
        elif witness is not None:
            val = Fraction(witness) if not isinstance(witness, float) else E.rationalize(witness)
            self._draw(sort, dlo, dhi)  # keep the random stream aligned
        else:
            val = self._draw(sort, dlo, dhi)
        self.env[name] = val
        if lo is not None:
            self.assume(E.le(E.const(lo), v))
        if hi is not None:
            self.assume(E.le(v, E.const(hi)))
        return v

    def real(self, name, lo=None, hi=None, witness=None, draw=None) -> Expr:
        """real variable constrained to [lo, hi] (None = unbounded); ``draw`` = range for witnesses / bounded inputs"""
        return self._var(name, "R", lo, hi, witness, draw)

    def int(self, name, lo=None, hi=None, witness=None, draw=None) -> Expr:
        return self._var(name, "I", lo, hi, witness, draw)

    def binary(self, name) -> Expr:
        """a variable taking the values 0 and 1 only: declared to the ring back end by the side relation b^2 = b"""
        v = self._var(name, "R", None, None, None, draw=None)
        self.env[name] = Fraction(self.rng.randint(0, 1)) if name not in self.fixed_env else Fraction(round(float(self.fixed_env[name])))
        self.vars[name] = ("I", 0, 1)
        self.assume(E.eq(E.mul(v, v), v))
        if self.mode == "sym":
            self.run.ring.add_square_relation(v, v)
        return v

    def binaries(self, name, shape) -> np.ndarray:
        out = np.empty(tuple(shape), dtype=object)
        for idx in np.ndindex(*out.shape):
            out[idx] = self.binary(f"{name}{list(idx)}".replace(" ", ""))
        return out

    def reals(self, name, shape, lo=None, hi=None) -> np.ndarray:
        out = np.empty(tuple(shape), dtype=object)
        for idx in np.ndindex(*out.shape):
            out[idx] = self.real(f"{name}{list(idx)}".replace(" ", ""), lo, hi)
        return out

    def ints(self, name, shape, lo=None, hi=None) -> np.ndarray:
        out = np.empty(tuple(shape), dtype=object)
        for idx in np.ndindex(*out.shape):
            out[idx] = self.int(f"{name}{list(idx)}".replace(" ", ""), lo, hi)
        return out

    def simplify(self, arr):
        """ring-normalised copies of spec expressions (symbolic mode); identity in concrete mode"""
        if self.mode != "sym":
            return arr
        a = np.asarray(arr, dtype=object)
        out = np.empty(a.shape, dtype=object)
        for idx in np.ndindex(*a.shape):
            try:
                out[idx] = self.run.ring.simplified(E.lift(a[idx]))
            except Exception:
                out[idx] = a[idx]
        return out

    def value(self, e) -> Any:
        """numeric value of an expression at the current environment"""
        return E.evaluate(E.lift(e), self.env)

    # ---- requires ----------------------------------------------------------------------------------
    def assume(self, cond):
        cond = E.lift(cond)
        self.requires.append(cond)
        ok = E.evaluate(cond, self.env)
        if not ok:
            raise InputRejected(E.to_str(cond))
        if self.mode == "sym":
            self.run.assume(cond)

    # ---- tensors -----------------------------------------------------------------------------------
    def tensor(self, exprs, dtype=torch.float32) -> torch.Tensor:
        if self.mode == "sym":
            return shadow.sym_tensor(self.st, exprs, dtype)
        arr = np.asarray(exprs, dtype=object)
        vals = np.empty(arr.shape, dtype=np.float64)
        for idx in np.ndindex(*arr.shape):
            vals[idx] = float(E.evaluate(E.lift(arr[idx]), self.env))
        return torch.from_numpy(vals).to(dtype).clone() if arr.shape else torch.tensor(float(vals), dtype=dtype)

    def val(self, t) -> np.ndarray:
        """element expressions of a tensor (symbolic payload / concrete constants)"""
        if isinstance(t, np.ndarray) and t.dtype == object:
            return t
        if isinstance(t, Expr):
            return shadow._obj(t)
        if isinstance(t, (int, float, Fraction, bool)):
            return shadow._obj(E.lift(t))
        if isinstance(t, np.ndarray):
            out = np.empty(t.shape, dtype=object)
            for idx in np.ndindex(*t.shape):
                out[idx] = E.bconst(bool(t[idx])) if t.dtype == bool else _exact_const(float(t[idx]))
            return out
        if isinstance(t, (list, tuple)):
            return np.array([self.val(x)[()] if np.ndim(self.val(x)) == 0 else self.val(x) for x in t], dtype=object)
        if self.mode == "sym":
            return shadow.payload(self.st, t)
        a = t.detach().double().cpu().numpy() if t.dtype != torch.bool else t.detach().cpu().numpy()
        out = np.empty(a.shape, dtype=object)
        for idx in np.ndindex(*a.shape):
            out[idx] = E.bconst(bool(a[idx])) if t.dtype == torch.bool else _exact_const(float(a[idx]))
        return out

    # ---- calling the real code -----------------------------------------------------------------------
    def call(self, fn: Callable, *args, modifies: Sequence[torch.Tensor] = (), protect: Sequence = (), **kwargs):
        """Run the real function.  Frame: every tensor reachable from the arguments (and ``protect``) is
        read-only unless listed in ``modifies``."""
        name = getattr(fn, "__qualname__", None) or getattr(fn, "__name__", None) or type(fn).__name__  # never repr(fn)
        self.calls.append(name)
        snap = None
        bound = getattr(fn, "__self__", None)
        recv = [bound] if bound is not None and not isinstance(bound, type) and not inspect.ismodule(bound) else []
        tensors = _reachable_tensors(recv + list(args) + list(kwargs.values()) + list(protect))
        mod_keys = {m.untyped_storage()._cdata for m in modifies}
        if self.mode == "sym":
            st = self.st
            for what, t in tensors:
                if t.untyped_storage()._cdata not in mod_keys:
                    st.protect(t, what)
            nviol = len(st.frame_violations)
        else:
            snap = [(what, t, t.detach().clone()) for what, t in tensors if t.untyped_storage()._cdata not in mod_keys]
        try:
            res = fn(*args, **kwargs)
        except (explore.PathLimit, shadow.ModelMismatch, Unsupported, InputRejected, TooBig):
            raise
        except Exception as ex:  # noqa: BLE001 - outcome of the real code
            res = Raised(ex, traceback.format_exc(limit=12), _site_of(ex))
        if self.mode == "sym":
            for fv in st.frame_violations[nviol:]:
                self._ob("frame", f"{name} modifies nothing: {fv}", E.FALSE, site=fv.site, kind="frame")
            self._ob("frame", f"{name}: no in-place write into an argument on this path", E.TRUE, kind="frame")
            st.unprotect_all()
        else:
            for what, t, old in snap:
                same = torch.equal(t.detach(), old) or bool(torch.allclose(t.detach().double(), old.double(), rtol=0, atol=0, equal_nan=True))
                self.checked += 1
                if not same:
                    self.failures.append({"clause": f"{name} modifies nothing", "kind": "frame", "what": what})
        return res

    # ---- ensures -------------------------------------------------------------------------------------
    def _name(self, tag):
        n = self._names.get(tag, 0)
        self._names[tag] = n + 1
        return f"{tag}#{n}" if n else tag

    def _ob(self, tag, text, goal, site="", kind="property", must_fail=False):
        hyps = self.run.hyps() if self.run is not None else []
        ob = Ob(self._name(tag), kind, text, E.lift(goal), hyps, site, must_fail)
        self.obs.append(ob)
        return ob

    def ensure_returns(self, res, tag="returns", text="the call succeeds for every valid input", kind="property"):
        if isinstance(res, Raised):
            if self.mode == "sym":
                ob = self._ob(tag, f"{text} (raised {type(res.exc).__name__}: {str(res.exc)[:120]})", E.FALSE, site=res.site, kind=kind)
                ob.detail = res.tb
            else:
                self.checked += 1
                self.failures.append({"clause": text, "kind": kind, "raised": f"{type(res.exc).__name__}: {res.exc}", "site": res.site})
            return False
        if self.mode == "sym":
            self._ob(tag, text, E.TRUE, kind=kind)
        else:
            self.checked += 1
        return True

    def ensure_raises(self, res, exc_types, tag="raises", text="documented exception", kind="helper"):
        ok = isinstance(res, Raised) and isinstance(res.exc, exc_types)
        if self.mode == "sym":
            self._ob(tag, text, E.bconst(ok), kind=kind)
        else:
            self.checked += 1
            if not ok:
                self.failures.append({"clause": text, "kind": kind, "got": repr(res)[:200]})
        return ok

    def ensure_eq(self, tag, got, want, text="", kind="property", must_fail=False, tol=None):
        g = self.val(got)
        w = self.val(want)
        if g.shape != w.shape:
            try:
                g, w = np.broadcast_arrays(g, w)
            except ValueError:
                if self.mode == "sym":
                    self._ob(tag, f"{text} [shape {g.shape} != {w.shape}]", E.FALSE, kind=kind, must_fail=must_fail)
                else:
                    self.checked += 1
                    if not must_fail:
                        self.failures.append({"clause": text or tag, "kind": kind, "shape": [list(g.shape), list(w.shape)]})
                return
        if self.mode == "sym":
            goals = []
            for idx in np.ndindex(*g.shape):
                a, b = g[idx], w[idx]
                goal = E.eq(a, b) if not (a.sort == "B" or b.sort == "B") else E.eq(shadow._tb(a), shadow._tb(b))
                if must_fail:
                    goals.append(goal)
                else:
                    self._ob(f"{tag}{list(idx)}" if g.shape else tag, text or tag, goal, kind=kind)
            if must_fail:
                self._ob(tag, text or tag, E.and_(*goals), kind=kind, must_fail=True)
        else:
            tol = self.tol if tol is None else tol
            worst = None
            for idx in np.ndindex(*g.shape):
                a, b = _fval(g[idx], self.env), _fval(w[idx], self.env)
                self.checked += 1
                if isinstance(a, bool) or isinstance(b, bool):
                    bad = bool(a) != bool(b)
                    err = 1.0 if bad else 0.0
                else:
                    err = abs(a - b) / max(1.0, abs(a), abs(b)) if (a == a and b == b) else math.inf
                    bad = not (err <= tol)
                if bad and (worst is None or err > worst[0]):
                    worst = (err, idx, a, b)
            if worst is not None and not must_fail:
                self.failures.append({"clause": text or tag, "kind": kind, "tag": tag, "index": list(worst[1]), "got": worst[2], "want": worst[3], "relerr": worst[0]})
            if worst is None and must_fail:
                self.notes.append(f"must-fail clause {tag} held on this input")

    def ensure_close(self, tag, got, want, eps=Fraction(1, 10 ** 9), text="", kind="property"):
        """got == want up to a perturbation of the coefficients: the ring normal form of (got - want) must have all
        coefficients <= eps in absolute value (used downstream of a rounding of *concrete* coordinates to 12 decimals,
        where an exact identity cannot hold).  Concrete mode: ordinary tolerance comparison."""
        if self.mode != "sym":
            return self.ensure_eq(tag, got, want, text=text, kind=kind)
        g, w = self.val(got), self.val(want)
        if g.shape != w.shape:
            g, w = np.broadcast_arrays(g, w)
        for idx in np.ndindex(*g.shape):
            ok = False
            try:
                r = self.run.ring.normal(E.sub(g[idx], w[idx]))
                num = self.run.ring.reduce(r.num) if self.run.ring.relations else r.num
                ok = all(abs(c) <= eps for c in num.values())
            except Exception:
                ok = False
            if ok:
                self._ob(f"{tag}{list(idx)}", (text or tag) + " [coefficients of the difference <= 1e-9]", E.TRUE, kind=kind).backend = "ring~"
            else:
                self._ob(f"{tag}{list(idx)}", text or tag, E.eq(g[idx], w[idx]), kind=kind)

    def ensure(self, tag, cond, text="", kind="property", must_fail=False, slack: float = 0.0):
        """cond: boolean Expr, or callable(slack) -> Expr in concrete mode for inequalities with tolerance."""
        if self.mode == "sym":
            c = cond(0) if callable(cond) else cond
            self._ob(tag, text or tag, E.lift(c), kind=kind, must_fail=must_fail)
        else:
            c = cond(slack or self.tol) if callable(cond) else cond
            self.checked += 1
            ok = bool(_bval(E.lift(c), self.env))
            if not ok and not must_fail:
                self.failures.append({"clause": text or tag, "kind": kind, "tag": tag})

    def note(self, s: str):
        self.notes.append(s)


def _exact_const(x: float) -> Expr:
    """the float measured on real torch, as an exact rational constant (no rationalisation)"""
    if x != x or x in (math.inf, -math.inf):
        return E.var("nan" if x != x else ("inf" if x > 0 else "-inf"))
    f = Fraction(x)
    return E._mk("const", (f,), "I" if f.denominator == 1 else "R")


class _FloatConst(Expr):
    """Concrete-mode element: a float measured on real torch (kept out of the hash-cons table)."""

    __slots__ = ("f",)

    def __init__(self, f: float):  # noqa: super not called on purpose
        self.op, self.args, self.sort, self.id = "fconst", (), "R", -1
        self.f = f


def _fval(e, env):
    if isinstance(e, _FloatConst):
        return e.f
    if e.op == "var" and e.args[0] in ("nan", "inf", "-inf"):
        return {"nan": math.nan, "inf": math.inf, "-inf": -math.inf}[e.args[0]]
    v = E.evaluate(E.lift(e), env)
    if isinstance(v, bool):
        return v
    return float(v)


def _bval(e: Expr, env) -> bool:
    return bool(E.evaluate(e, env))


def _reachable_tensors(objs, acc=None, seen=None, what="arg", depth=0):
    """tensors reachable from the arguments: tensors, sequences, dicts, Grid/Cube slots, Module parameters/buffers"""
    if acc is None:
        acc, seen = [], set()
    for i, o in enumerate(objs):
        if id(o) in seen or depth > 4:
            continue
        seen.add(id(o))
        w = f"{what}{i}" if depth == 0 else what
        if isinstance(o, torch.Tensor):
            t = o.as_subclass(torch.Tensor) if type(o) is not torch.Tensor and not isinstance(o, torch.nn.Parameter) else o
            acc.append((w, t.detach() if t.requires_grad else t))
            g = getattr(o, "_grid", None)
            if g is not None:
                _reachable_tensors(list(g) if isinstance(g, (list, tuple)) else [g], acc, seen, w + ".grid", depth + 1)
        elif isinstance(o, (list, tuple)):
            _reachable_tensors(list(o), acc, seen, w, depth + 1)
        elif isinstance(o, dict):
            _reachable_tensors(list(o.values()), acc, seen, w, depth + 1)
        elif isinstance(o, torch.nn.Module):
            for n, p in list(o.named_parameters(recurse=True)) + list(o.named_buffers(recurse=True)):
                _reachable_tensors([p], acc, seen, f"{w}.{n}", depth + 1)
            for n in ("_grid",):
                g = getattr(o, n, None)
                if g is not None:
                    _reachable_tensors([g], acc, seen, f"{w}.{n}", depth + 1)
        elif hasattr(o, "__slots__") and not isinstance(o, (str, bytes, int, float, Expr)):
            for n in o.__slots__:
                v = getattr(o, n, None)
                if isinstance(v, torch.Tensor):
                    _reachable_tensors([v], acc, seen, f"{w}.{n}", depth + 1)
    return acc


# ======================================================================================================
# discharging
# ======================================================================================================
def discharge(ob: Ob, run: explore.Run, kit: Kit, timeout_s: float, n_random: int = 6, cheap_only: bool = False):
    t0 = time.time()
    goal = ob.goal
    # CPU-time limit of the ring normaliser for this obligation (process time: does not flip under machine load)
    run.ring.deadline = time.process_time() + (15.0 if timeout_s <= 10 else 60.0)
    if goal.op == "bconst":
        if goal.args[0]:
            ob.status, ob.backend = "proved", "trivial"
        else:
            # the clause is false on this path: a violation iff the path is feasible (model = an input taking it)
            if run.on_witness and all(_safe_true(h, run.env) for h in ob.hyps):
                ob.status, ob.backend, ob.model = "refuted", "trivial", dict(run.env)
            else:
                r = smt.prove(ob.hyps, E.FALSE, timeout_s=timeout_s)
                ob.status, ob.backend, ob.model = r.status, "path:" + r.backend, r.model
                if r.status == "proved":
                    ob.detail = "path infeasible"
        ob.time = time.time() - t0
        return
    # 0. goals of the form  d != 0  (division safety)
    if goal.op == "not" and goal.args[0].op == "eq":
        a, b = goal.args[0].args
        try:
            v = run.ring.const_value(E.sub(a, b)) if E.size(goal) < 20000 else None
        except (TooBig, Unsupported, ZeroDivisionError):
            v = None
        if v is not None and v != 0:
            ob.status, ob.backend, ob.time = "proved", "ring", time.time() - t0
            return
        for h in ob.hyps:
            if h.op == "lt" and ((h.args[0] is b and h.args[1] is a) or (h.args[0] is a and h.args[1] is b)):
                ob.status, ob.backend, ob.time = "proved", "hypothesis", time.time() - t0
                return
    try:
        if run.ctx.lin_refutes(E.not_(goal)):
            ob.status, ob.backend, ob.time = "proved", "z3-linear", time.time() - t0
            return
    except Unsupported:
        pass
    # 0b. order relations whose difference normalises to a constant
    if _ring_order(goal, run) is True:
        ob.status, ob.backend, ob.time = "proved", "ring", time.time() - t0
        return
    # 1. ring
    if goal.op == "eq":
        try:
            if E.size(goal) < 60000 and run.ring.prove_eq(goal.args[0], goal.args[1]):
                ob.status, ob.backend, ob.time = "proved", "ring", time.time() - t0
                return
        except (TooBig, Unsupported, ZeroDivisionError) as ex:
            ob.detail = f"ring: {type(ex).__name__} {ex}"
    # 2. refutation by exact evaluation at random rational points satisfying the hypotheses
    m = _random_refute(ob, kit, n_random)
    if m is not None:
        ob.status, ob.backend, ob.model, ob.time = "refuted", "eval", m, time.time() - t0
        return
    if cheap_only:
        ob.status, ob.backend, ob.time = "skipped", "none", time.time() - t0
        return
    # 3. SMT
    if "TooBig" in ob.detail and timeout_s <= 10:
        ob.status, ob.backend, ob.time = "unknown", "ring", time.time() - t0
        ob.detail += " (expression too large for the quick tier)"
        return
    try:
        r = smt.prove(ob.hyps, goal, timeout_s=timeout_s)
    except Unsupported as ex:
        ob.status, ob.backend, ob.detail = "unknown", "smt", str(ex)
        ob.time = time.time() - t0
        return
    ob.status = r.status
    ob.backend = r.backend
    ob.model = r.model
    ob.detail = (ob.detail + " " + r.reason).strip()
    ob.time = time.time() - t0


def _ring_order(goal: Expr, run) -> Optional[bool]:
    """Decide conjunctions of a <= b / a < b whose difference the ring normaliser reduces to a constant."""
    if goal.op == "and":
        rs = [_ring_order(g, run) for g in goal.args]
        if all(r is True for r in rs):
            return True
        return None
    if goal.op in ("le", "lt"):
        try:
            d = E.sub(goal.args[0], goal.args[1])
            v = run.ring.const_value(d) if E.size(d) < 20000 else None
        except (TooBig, Unsupported, ZeroDivisionError):
            return None
        if v is None:
            return None
        return (v <= 0) if goal.op == "le" else (v < 0)
    return None


def _safe_true(h, env) -> bool:
    try:
        return bool(E.evaluate(h, env))
    except Exception:
        return False


def _random_refute(ob: Ob, kit: Kit, n: int):
    fv = E.free_vars(ob.goal)
    for h in ob.hyps:
        E.free_vars(h, fv)
    if any(name not in kit.vars and name not in kit.env for name in fv):
        return None  # fresh opaque symbols: no meaningful evaluation
    rng = random.Random(hash(ob.name) & 0xFFFF)
    envs = [dict(kit.env)]
    for _ in range(n * 8):
        if len(envs) > n:
            break
        env = dict(kit.env)
        for name in fv:
            if name in kit.vars:
                sort, lo, hi = kit.vars[name]
                k = Kit("conc", seed=rng.randint(0, 1 << 30))
                env[name] = k._draw(sort, lo, hi)
        envs.append(env)
    for env in envs:
        try:
            if not all(bool(E.evaluate(h, env)) for h in ob.hyps):
                continue
            v = E.evaluate(ob.goal, env)
        except (KeyError, ZeroDivisionError, Unsupported, OverflowError, ValueError):
            continue
        if v is False or (v is not True and not v):
            return {k: env[k] for k in fv if k in env}
    return None


def source_info(target: str) -> dict:
    mod, qual = target.split(":")
    m = importlib.import_module(mod)
    obj = m
    for part in qual.split("."):
        obj = getattr(obj, part)
    obj = inspect.unwrap(obj) if callable(obj) else obj
    if isinstance(obj, property):
        obj = obj.fget
    try:
        src, line = inspect.getsourcelines(obj)
        file = inspect.getsourcefile(obj)
    except (TypeError, OSError):
        return {"target": target}
    return {
        "target": target,
        "file": file,
        "lines": [line, line + len(src) - 1],
        "sha256": hashlib.sha256("".join(src).encode()).hexdigest()[:16],
    }
