"""Symbolic shadow execution of the real code on the real torch.

A :class:`SymMode` (``TorchDispatchMode``) intercepts every aten operation.  The real operation is
executed on concrete *witness* values (so shapes, dtypes, strides, aliasing, error behaviour,
``nn.Module`` / ``Parameter`` / tensor-subclass protocol and the autograd graph are torch's own), and
in parallel the symbolic payload of every result element is computed as a :class:`vc.expr.Expr`.

Payload lives in *shadow storages*: for each real storage an int64 tensor of the same number of
elements holding ``Expr.id``.  A tensor's payload is ``as_strided(shadow, size, stride, offset)`` - so
views alias exactly as in torch and data-movement operations are executed by torch itself on the
shadow.  A storage without a shadow is concrete (interned lazily from its values).

Every numeric result is validated against torch's own concrete result at the witness
(``payload(witness) == real value``) while the run is on the witness path.
An operation without symbolic semantics yields fresh unconstrained symbols (sound over-approximation:
nothing can be *proved* about them) and is reported.
"""
from __future__ import annotations

import itertools
import math
from collections import Counter
from fractions import Fraction
from typing import Any, Dict, List, Optional, Sequence, Tuple

import numpy as np
import torch
from torch.overrides import TorchFunctionMode
from torch.utils._python_dispatch import TorchDispatchMode, _disable_current_modes

from . import explore
from . import expr as E
from .expr import EXPRS, Expr, Unsupported

aten = torch.ops.aten


class ModelMismatch(Exception):
    """The symbolic semantics of an operation disagrees with torch at the witness (machinery failure)."""


class FrameViolation:
    def __init__(self, op, site, what):
        self.op, self.site, self.what = op, site, what

    def __repr__(self):
        return f"in-place {self.op} on protected {self.what} at {self.site}"


_get = np.frompyfunc(lambda i: EXPRS[i], 1, 1)
_ids = np.frompyfunc(lambda e: e.id, 1, 1)


def _obj(a) -> np.ndarray:
    if isinstance(a, np.ndarray) and a.dtype == object:
        return a
    r = np.empty((), dtype=object)
    r[()] = a
    return r


class State:
    def __init__(self, run: "explore.Run", validate: bool = True):
        self.run = run
        self.shadows: Dict[int, tuple] = {}
        self.protected: Dict[int, str] = {}
        self.frame_violations: List[FrameViolation] = []
        self.opaque_ops: Counter = Counter()
        self.op_count: Counter = Counter()
        self.validate = validate
        self.validated = 0
        self.fresh_n = 0
        self.random_ops: Counter = Counter()
        self.in_format = 0
        self.undef_n = 0
        self.noisy: set = set()

    # ---- shadows ---------------------------------------------------------------------------------
    def _flat(self, t: torch.Tensor):
        st = t.untyped_storage()
        k = st._cdata
        ent = self.shadows.get(k)
        if ent is None:
            n = st.nbytes() // t.element_size()
            flat = torch.empty(0, dtype=t.dtype).set_(st, 0, (n,), (1,))
            ids = self._intern(flat)
            ent = (st, ids)
            self.shadows[k] = ent
        return ent[1]

    def has_shadow(self, t: torch.Tensor) -> bool:
        return t.untyped_storage()._cdata in self.shadows

    def _intern(self, flat: torch.Tensor) -> torch.Tensor:
        if flat.numel() == 0:
            return torch.zeros(0, dtype=torch.int64)
        vals = flat.tolist()
        dt = flat.dtype
        single = dt in (torch.float32, torch.float16, torch.bfloat16)
        out = []
        if dt == torch.bool:
            for v in vals:
                out.append(E.TRUE.id if v else E.FALSE.id)
        elif dt.is_floating_point:
            cache = {}
            for v in vals:
                i = cache.get(v)
                if i is None:
                    if v != v or v in (math.inf, -math.inf):
                        self.undef_n += 1
                        i = E.var(f"undef#{self.undef_n}").id
                    else:
                        i = E.const(E.rationalize(v, single)).id
                    cache[v] = i
                out.append(i)
        elif dt.is_complex:
            raise Unsupported("complex tensors")
        else:
            for v in vals:
                out.append(E.const(Fraction(int(v))).id)
        return torch.tensor(out, dtype=torch.int64)

    def shadow(self, t: torch.Tensor) -> torch.Tensor:
        flat = self._flat(t)
        return torch.as_strided(flat, tuple(t.size()), tuple(t.stride()), t.storage_offset())

    def payload(self, t: torch.Tensor) -> np.ndarray:
        ids = self.shadow(t).contiguous().numpy()
        r = _get(ids)
        r = _obj(r)
        if t.dtype == torch.bool:
            r = _tobool_arr(r)
        return r

    def set_payload(self, t: torch.Tensor, arr) -> None:
        arr = _obj(arr)
        if arr.shape != tuple(t.shape):
            arr = np.broadcast_to(arr, tuple(t.shape))
        ids = np.asarray(_ids(arr), dtype=np.int64).reshape(tuple(t.shape))
        self.set_shadow(t, torch.from_numpy(np.array(ids, dtype=np.int64, order='C')))

    def set_shadow(self, t: torch.Tensor, ids: torch.Tensor) -> None:
        st = t.untyped_storage()
        k = st._cdata
        ent = self.shadows.get(k)
        if ent is None:
            n = st.nbytes() // t.element_size()
            flat = torch.zeros(n, dtype=torch.int64)
            # elements of the storage not covered by t keep their concrete values
            if n != t.numel():
                flat = self._flat(t)
            else:
                self.shadows[k] = (st, flat)
        else:
            flat = ent[1]
        torch.as_strided(flat, tuple(t.size()), tuple(t.stride()), t.storage_offset()).copy_(ids)

    def is_concrete(self, t: torch.Tensor) -> bool:
        return t.untyped_storage()._cdata not in self.shadows

    def fresh(self, shape, tag: str, sort="R") -> np.ndarray:
        self.fresh_n += 1
        out = np.empty(tuple(shape), dtype=object)
        for idx in np.ndindex(*out.shape):
            out[idx] = E.var(f"?{tag}#{self.fresh_n}{list(idx)}", sort)
        return out

    # ---- frames ----------------------------------------------------------------------------------
    def protect(self, t: torch.Tensor, what: str):
        self.protected.setdefault(t.untyped_storage()._cdata, what)
        self.protected_objs = getattr(self, "protected_objs", {})
        self.protected_objs[id(t)] = t  # (keeps the object alive: ids are not reused while protected)
        # (the reference above keeps the storage alive so that its address is not reused; a concrete tensor stays
        # concrete - giving it a shadow would turn every later operation on it into symbolic evaluation of constants)

    def unprotect_all(self):
        self.protected.clear()
        self.protected_objs = {}


STATE: Optional[State] = None

# in-place operations that change the size/stride/flags of the tensor *object* only and never write an element
METADATA_ONLY = {"squeeze", "unsqueeze", "transpose", "t", "as_strided", "detach", "swapaxes", "swapdims"}  # base names of the in-place variants


def _tobool_arr(r: np.ndarray) -> np.ndarray:
    def f(e):
        if e.sort == "B":
            return e
        if e.op == "const":
            return E.bconst(e.args[0] != 0)
        return E.ne(e, E.ZERO)

    return _obj(np.frompyfunc(f, 1, 1)(r))


def _num_arr(r: np.ndarray) -> np.ndarray:
    return _obj(np.frompyfunc(E.num, 1, 1)(r))


# ======================================================================================================
# semantic handlers:   h(st, func, args, kwargs, out) -> payload (object ndarray) or tuple of payloads
# ======================================================================================================
SEM: Dict[str, Any] = {}
MOVE: set = set()


def sem(*names):
    def deco(f):
        for n in names:
            SEM[n] = f
        return f

    return deco


def P(st: State, x, like: Optional[torch.Tensor] = None) -> np.ndarray:
    """payload of a tensor or python scalar argument (numbers coerced, bools -> 0/1 only on demand)."""
    if isinstance(x, torch.Tensor):
        return st.payload(x)
    if isinstance(x, Expr):
        return _obj(x)
    if isinstance(x, bool):
        return _obj(E.bconst(x))
    if isinstance(x, (int, float)):
        if isinstance(x, float) and (x != x or x in (math.inf, -math.inf)):
            raise Unsupported("non-finite scalar argument")
        return _obj(E.const(E.rationalize(x)))
    raise Unsupported(f"payload of {type(x).__name__}")


def PN(st, x):
    return _num_arr(P(st, x))


def _u(fn):
    uf = np.frompyfunc(fn, 1, 1)
    return lambda a: _obj(uf(a))


def _b(fn):
    bf = np.frompyfunc(fn, 2, 1)
    return lambda a, b: _obj(bf(a, b))


def _unary(name, fn, numeric=True):
    f = _u(fn)

    @sem(name)
    def h(st, func, args, kwargs, out):
        return f(PN(st, args[0]) if numeric else P(st, args[0]))

    return h


for _n, _f in [
    ("neg", E.neg),
    ("abs", E.abs_),
    ("reciprocal", lambda a: E.div(E.ONE, a)),
    ("sqrt", E.sqrt),
    ("rsqrt", lambda a: E.div(E.ONE, E.sqrt(a))),
    ("exp", E.exp),
    ("log", E.log),
    ("sin", E.sin),
    ("cos", E.cos),
    ("tan", lambda a: E.fn("tan", a)),
    ("tanh", lambda a: E.fn("tanh", a)),
    ("atanh", lambda a: E.fn("atanh", a)),
    ("acos", lambda a: E.fn("acos", a)),
    ("asin", lambda a: E.fn("asin", a)),
    ("atan", lambda a: E.fn("atan", a)),
    ("sigmoid", lambda a: E.fn("sigmoid", a)),
    ("erf", lambda a: E.fn("erf", a)),
    ("log1p", lambda a: E.fn("log1p", a)),
    ("expm1", lambda a: E.fn("expm1", a)),
    ("ceil", E.ceil),
    ("floor", E.floor),
    ("trunc", E.trunc),
    ("sign", E.sign),
    ("sgn", E.sign),
    ("square", lambda a: E.mul(a, a)),
    ("relu", lambda a: E.max_(a, E.ZERO)),
    ("positive", lambda a: a),
    ("frac", lambda a: E.sub(a, E.trunc(a))),
]:
    _unary(_n, _f)

_unary("logical_not", E.not_, numeric=False)
_unary("bitwise_not", E.not_, numeric=False)


@sem("round")
def _round(st, func, args, kwargs, out):
    dec = kwargs.get("decimals", args[1] if len(args) > 1 else 0)
    a = PN(st, args[0])
    if dec == 0:
        return _u(E.round_)(a)
    k = Fraction(10) ** dec
    return _u(lambda e: E.mul(E.round_(E.mul(e, k)), 1 / k))(a)


@sem("isnan", "isinf")
def _isnan(st, func, args, kwargs, out):
    return np.full(tuple(out.shape), E.FALSE, dtype=object)


@sem("isfinite")
def _isfinite(st, func, args, kwargs, out):
    return np.full(tuple(out.shape), E.TRUE, dtype=object)


def _alpha(kwargs, args, pos=2):
    a = kwargs.get("alpha", args[pos] if len(args) > pos else 1)
    return a


@sem("add")
def _add(st, func, args, kwargs, out):
    a, b = PN(st, args[0]), PN(st, args[1])
    al = _alpha(kwargs, args)
    if al != 1:
        b = _b(E.mul)(b, PN(st, al))
    return _b(E.add)(a, b)


@sem("sub")
def _sub(st, func, args, kwargs, out):
    a, b = PN(st, args[0]), PN(st, args[1])
    al = _alpha(kwargs, args)
    if al != 1:
        b = _b(E.mul)(b, PN(st, al))
    return _b(E.sub)(a, b)


@sem("rsub")
def _rsub(st, func, args, kwargs, out):
    a, b = PN(st, args[0]), PN(st, args[1])
    al = _alpha(kwargs, args)
    if al != 1:
        a = _b(E.mul)(a, PN(st, al))
    return _b(E.sub)(b, a)


@sem("mul")
def _mul(st, func, args, kwargs, out):
    a, b = P(st, args[0]), P(st, args[1])
    if out.dtype == torch.bool:
        return _b(E.and_)(a, b)
    return _b(E.mul)(_num_arr(a), _num_arr(b))


@sem("div", "true_divide")
def _div(st, func, args, kwargs, out):
    a, b = PN(st, args[0]), PN(st, args[1])
    mode = kwargs.get("rounding_mode", None)
    q = _b(E.div)(a, b)
    if mode == "floor":
        return _u(E.floor)(q)
    if mode == "trunc":
        return _u(E.trunc)(q)
    return q


@sem("floor_divide")
def _floordiv(st, func, args, kwargs, out):
    return _u(E.floor)(_b(E.div)(PN(st, args[0]), PN(st, args[1])))


@sem("remainder")
def _rem(st, func, args, kwargs, out):
    a, b = PN(st, args[0]), PN(st, args[1])
    return _b(lambda x, y: E.sub(x, E.mul(y, E.floor(E.div(x, y)))))(a, b)


@sem("fmod")
def _fmod(st, func, args, kwargs, out):
    a, b = PN(st, args[0]), PN(st, args[1])
    return _b(lambda x, y: E.sub(x, E.mul(y, E.trunc(E.div(x, y)))))(a, b)


@sem("pow")
def _pow(st, func, args, kwargs, out):
    a, b = args[0], args[1]
    if not isinstance(b, torch.Tensor):
        return _u(lambda e: E.pow_(e, b))(PN(st, a))
    pb = PN(st, b)
    pa = PN(st, a)
    return _b(lambda x, y: E.pow_(x, y))(pa, pb)


@sem("atan2")
def _atan2(st, func, args, kwargs, out):
    return _b(lambda x, y: E.fn("atan2", x, y))(PN(st, args[0]), PN(st, args[1]))


@sem("maximum", "fmax")
def _maximum(st, func, args, kwargs, out):
    return _b(E.max_)(PN(st, args[0]), PN(st, args[1]))


@sem("minimum", "fmin")
def _minimum(st, func, args, kwargs, out):
    return _b(E.min_)(PN(st, args[0]), PN(st, args[1]))


for _n, _f in [("eq", E.eq), ("ne", E.ne), ("lt", E.lt), ("le", E.le), ("gt", E.gt), ("ge", E.ge)]:

    def _mk_cmp(fn):
        bf = _b(fn)

        def h(st, func, args, kwargs, out):
            a, b = P(st, args[0]), P(st, args[1])
            return bf(a, b)

        return h

    SEM[_n] = _mk_cmp(_f)

SEM["logical_and"] = lambda st, func, args, kwargs, out: _b(E.and_)(P(st, args[0]), P(st, args[1]))
SEM["logical_or"] = lambda st, func, args, kwargs, out: _b(E.or_)(P(st, args[0]), P(st, args[1]))
SEM["logical_xor"] = lambda st, func, args, kwargs, out: _b(lambda a, b: E.not_(E.eq(E.lift(a) if False else _tb(a), _tb(b))))(
    P(st, args[0]), P(st, args[1])
)


def _tb(a):
    return a if a.sort == "B" else E.ne(a, E.ZERO)


@sem("bitwise_and")
def _band(st, func, args, kwargs, out):
    if out.dtype != torch.bool:
        raise Unsupported("bitwise_and on integers")
    return _b(E.and_)(P(st, args[0]), P(st, args[1]))


@sem("bitwise_or")
def _bor(st, func, args, kwargs, out):
    if out.dtype != torch.bool:
        raise Unsupported("bitwise_or on integers")
    return _b(E.or_)(P(st, args[0]), P(st, args[1]))


@sem("where")
def _where(st, func, args, kwargs, out):
    if len(args) < 3:
        raise Unsupported("where(cond) -> indices")
    c = _tobool_arr(P(st, args[0]))
    a, b = P(st, args[1]), P(st, args[2])
    c, a, b = np.broadcast_arrays(c, a, b)
    return _obj(np.frompyfunc(E.ite, 3, 1)(c, a, b))


@sem("clamp", "clip")
def _clamp(st, func, args, kwargs, out):
    a = PN(st, args[0])
    lo = kwargs.get("min", args[1] if len(args) > 1 else None)
    hi = kwargs.get("max", args[2] if len(args) > 2 else None)
    if lo is not None:
        a = _b(E.max_)(a, PN(st, lo))
    if hi is not None:
        a = _b(E.min_)(a, PN(st, hi))
    return a


@sem("clamp_min")
def _clamp_min(st, func, args, kwargs, out):
    return _b(E.max_)(PN(st, args[0]), PN(st, args[1]))


@sem("clamp_max")
def _clamp_max(st, func, args, kwargs, out):
    return _b(E.min_)(PN(st, args[0]), PN(st, args[1]))


@sem("addcmul")
def _addcmul(st, func, args, kwargs, out):
    v = kwargs.get("value", 1)
    r = _b(E.mul)(PN(st, args[1]), PN(st, args[2]))
    if v != 1:
        r = _b(E.mul)(r, PN(st, v))
    return _b(E.add)(PN(st, args[0]), r)


@sem("addcdiv")
def _addcdiv(st, func, args, kwargs, out):
    v = kwargs.get("value", 1)
    r = _b(E.div)(PN(st, args[1]), PN(st, args[2]))
    if v != 1:
        r = _b(E.mul)(r, PN(st, v))
    return _b(E.add)(PN(st, args[0]), r)


@sem("lerp")
def _lerp(st, func, args, kwargs, out):
    a, b, w = PN(st, args[0]), PN(st, args[1]), PN(st, args[2])
    return _b(E.add)(a, _b(E.mul)(w, _b(E.sub)(b, a)))


@sem("masked_fill")
def _masked_fill(st, func, args, kwargs, out):
    a = P(st, args[0])
    m = _tobool_arr(P(st, args[1]))
    v = P(st, args[2])
    m, a, v = np.broadcast_arrays(m, a, v)
    return _obj(np.frompyfunc(E.ite, 3, 1)(m, v, a))


@sem("threshold")
def _threshold(st, func, args, kwargs, out):
    a = PN(st, args[0])
    th, v = PN(st, args[1]), PN(st, args[2])
    return _obj(np.frompyfunc(lambda x, t, w: E.ite(E.le(x, t), w, x), 3, 1)(*np.broadcast_arrays(a, th, v)))


@sem("fill")
def _fill(st, func, args, kwargs, out):
    v = P(st, args[1])
    return np.broadcast_to(v, tuple(out.shape))


@sem("zero")
def _zero(st, func, args, kwargs, out):
    return np.full(tuple(out.shape), E.FALSE if out.dtype == torch.bool else E.ZERO, dtype=object)


def _reduce_enum(arr, red):
    flat = list(_obj(arr).ravel())
    if red == 0:
        return arr
    tot = E.add(*flat) if flat else E.ZERO
    return _obj(E.mul(tot, Fraction(1, len(flat))) if red == 1 else tot)


@sem("mse_loss")
def _mse_loss(st, func, args, kwargs, out):
    d = _b(E.sub)(PN(st, args[0]), PN(st, args[1]))
    return _reduce_enum(_b(E.mul)(d, d), args[2] if len(args) > 2 else kwargs.get("reduction", 1))


@sem("l1_loss")
def _l1_loss(st, func, args, kwargs, out):
    d = _u(E.abs_)(_b(E.sub)(PN(st, args[0]), PN(st, args[1])))
    return _reduce_enum(d, args[2] if len(args) > 2 else kwargs.get("reduction", 1))


@sem("huber_loss")
def _huber_loss(st, func, args, kwargs, out):
    delta = E.const(E.rationalize(args[3] if len(args) > 3 else kwargs.get("delta", 1.0)))
    z = _u(E.abs_)(_b(E.sub)(PN(st, args[0]), PN(st, args[1])))
    f = _u(lambda v: E.ite(E.lt(v, delta), E.mul(Fraction(1, 2), v, v), E.mul(delta, E.sub(v, E.mul(Fraction(1, 2), delta)))))
    return _reduce_enum(f(z), args[2] if len(args) > 2 else kwargs.get("reduction", 1))


@sem("smooth_l1_loss")
def _smooth_l1_loss(st, func, args, kwargs, out):
    beta = E.const(E.rationalize(args[3] if len(args) > 3 else kwargs.get("beta", 1.0)))
    z = _u(E.abs_)(_b(E.sub)(PN(st, args[0]), PN(st, args[1])))
    if beta.args[0] == 0:
        return _reduce_enum(z, args[2] if len(args) > 2 else kwargs.get("reduction", 1))
    f = _u(lambda v: E.ite(E.lt(v, beta), E.div(E.mul(Fraction(1, 2), v, v), beta), E.sub(v, E.mul(Fraction(1, 2), beta))))
    return _reduce_enum(f(z), args[2] if len(args) > 2 else kwargs.get("reduction", 1))


# ---- dtype conversion / copies --------------------------------------------------------------------
def _convert(arr: np.ndarray, src: torch.dtype, dst: torch.dtype) -> np.ndarray:
    if dst == torch.bool:
        return _tobool_arr(arr)
    arr = _num_arr(arr)
    if not dst.is_floating_point and (src.is_floating_point):
        return _u(E.trunc)(arr)
    return arr


@sem("_to_copy")
def _to_copy(st, func, args, kwargs, out):
    return _convert(P(st, args[0]), args[0].dtype, out.dtype)


@sem("copy")
def _copy(st, func, args, kwargs, out):
    src = args[1]
    if not isinstance(src, torch.Tensor):
        return np.broadcast_to(P(st, src), tuple(out.shape))
    return np.broadcast_to(_convert(P(st, src), src.dtype, out.dtype), tuple(out.shape))


# ---- reductions -----------------------------------------------------------------------------------
def _norm_dims(dim, ndim):
    if dim is None or (isinstance(dim, (list, tuple)) and len(dim) == 0):
        return tuple(range(ndim))
    if isinstance(dim, int):
        dim = [dim]
    return tuple(sorted(d % ndim if ndim else 0 for d in dim))


def _reduce(arr: np.ndarray, dims, keepdim, fn2, empty):
    if arr.ndim == 0:
        return arr
    if not dims:
        return arr
    a = np.moveaxis(arr, dims, tuple(range(arr.ndim - len(dims), arr.ndim)))
    lead = a.shape[: arr.ndim - len(dims)]
    a = a.reshape(lead + (-1,))
    out = np.empty(lead, dtype=object)
    for idx in np.ndindex(*lead):
        row = a[idx]
        if row.size == 0:
            out[idx] = empty
        else:
            out[idx] = fn2(list(row))
    if keepdim:
        shp = list(arr.shape)
        for d in dims:
            shp[d] = 1
        out = out.reshape(shp)
    return out


def _get_dim_keep(args, kwargs, dpos=1, kpos=2):
    dim = kwargs.get("dim", args[dpos] if len(args) > dpos else None)
    keep = kwargs.get("keepdim", args[kpos] if len(args) > kpos else False)
    return dim, keep


@sem("sum")
def _sum(st, func, args, kwargs, out):
    a = PN(st, args[0])
    dim, keep = _get_dim_keep(args, kwargs)
    if isinstance(keep, torch.dtype) or keep is None:
        keep = False
    return _reduce(a, _norm_dims(dim, a.ndim), keep, lambda xs: E.add(*xs), E.ZERO)


@sem("mean")
def _mean(st, func, args, kwargs, out):
    a = PN(st, args[0])
    dim, keep = _get_dim_keep(args, kwargs)
    if isinstance(keep, torch.dtype) or keep is None:
        keep = False
    return _reduce(a, _norm_dims(dim, a.ndim), keep, lambda xs: E.mul(E.add(*xs), Fraction(1, len(xs))), E.ZERO)


@sem("prod")
def _prod(st, func, args, kwargs, out):
    a = PN(st, args[0])
    dim, keep = _get_dim_keep(args, kwargs)
    if isinstance(keep, torch.dtype) or keep is None:
        keep = False
    return _reduce(a, _norm_dims(dim, a.ndim), keep, lambda xs: E.mul(*xs), E.ONE)


@sem("any")
def _any(st, func, args, kwargs, out):
    a = _tobool_arr(P(st, args[0]))
    dim, keep = _get_dim_keep(args, kwargs)
    return _reduce(a, _norm_dims(dim, a.ndim), keep, lambda xs: E.or_(*xs), E.FALSE)


@sem("all")
def _all(st, func, args, kwargs, out):
    a = _tobool_arr(P(st, args[0]))
    dim, keep = _get_dim_keep(args, kwargs)
    return _reduce(a, _norm_dims(dim, a.ndim), keep, lambda xs: E.and_(*xs), E.TRUE)


def _fold(fn):
    def f(xs):
        r = xs[0]
        for x in xs[1:]:
            r = fn(r, x)
        return r

    return f


@sem("amax")
def _amax(st, func, args, kwargs, out):
    a = PN(st, args[0])
    dim, keep = _get_dim_keep(args, kwargs)
    return _reduce(a, _norm_dims(dim, a.ndim), keep, _fold(E.max_), E.ZERO)


@sem("amin")
def _amin(st, func, args, kwargs, out):
    a = PN(st, args[0])
    dim, keep = _get_dim_keep(args, kwargs)
    return _reduce(a, _norm_dims(dim, a.ndim), keep, _fold(E.min_), E.ZERO)


@sem("max")
def _max(st, func, args, kwargs, out):
    if len(args) == 1 and not kwargs:
        a = PN(st, args[0])
        return _reduce(a, _norm_dims(None, a.ndim), False, _fold(E.max_), E.ZERO)
    if len(args) >= 2 and isinstance(args[1], torch.Tensor):
        return _b(E.max_)(PN(st, args[0]), PN(st, args[1]))
    # max.dim -> (values, indices): values symbolic, indices opaque integers
    a = PN(st, args[0])
    dim, keep = _get_dim_keep(args, kwargs)
    vals = _reduce(a, _norm_dims(dim, a.ndim), keep, _fold(E.max_), E.ZERO)
    return (vals, st.fresh(tuple(out[1].shape), "argmax", "I"))


@sem("min")
def _min(st, func, args, kwargs, out):
    if len(args) == 1 and not kwargs:
        a = PN(st, args[0])
        return _reduce(a, _norm_dims(None, a.ndim), False, _fold(E.min_), E.ZERO)
    if len(args) >= 2 and isinstance(args[1], torch.Tensor):
        return _b(E.min_)(PN(st, args[0]), PN(st, args[1]))
    a = PN(st, args[0])
    dim, keep = _get_dim_keep(args, kwargs)
    vals = _reduce(a, _norm_dims(dim, a.ndim), keep, _fold(E.min_), E.ZERO)
    return (vals, st.fresh(tuple(out[1].shape), "argmin", "I"))


@sem("var", "std")
def _var(st, func, args, kwargs, out):
    a = PN(st, args[0])
    name = func._schema.name.split("::")[1]
    dim = kwargs.get("dim", None)
    corr = kwargs.get("correction", None)
    keep = kwargs.get("keepdim", False)
    rest = list(args[1:])
    if func._overloadname in ("default",):
        unb = rest[0] if rest else kwargs.get("unbiased", True)
        corr = 1 if unb else 0
    elif func._overloadname == "dim":
        dim = rest[0] if rest else dim
        unb = rest[1] if len(rest) > 1 else kwargs.get("unbiased", True)
        keep = rest[2] if len(rest) > 2 else keep
        corr = 1 if unb else 0
    elif func._overloadname == "correction":
        dim = rest[0] if rest else dim
        if corr is None:
            corr = 1
    else:
        raise Unsupported(f"{name}.{func._overloadname}")
    dims = _norm_dims(dim, a.ndim)

    def v(xs):
        n = len(xs)
        m = E.mul(E.add(*xs), Fraction(1, n))
        s = E.add(*[E.mul(E.sub(x, m), E.sub(x, m)) for x in xs])
        r = E.div(s, E.const(n - corr))
        return E.sqrt(r) if name == "std" else r

    return _reduce(a, dims, keep, v, E.ZERO)


@sem("linalg_vector_norm")
def _vnorm(st, func, args, kwargs, out):
    a = PN(st, args[0])
    ord_ = kwargs.get("ord", args[1] if len(args) > 1 else 2)
    dim = kwargs.get("dim", args[2] if len(args) > 2 else None)
    keep = kwargs.get("keepdim", args[3] if len(args) > 3 else False)
    dims = _norm_dims(dim, a.ndim)
    if ord_ == 2:
        f = lambda xs: E.sqrt(E.add(*[E.mul(x, x) for x in xs]))
    elif ord_ == 1:
        f = lambda xs: E.add(*[E.abs_(x) for x in xs])
    elif ord_ == math.inf:
        f = lambda xs: _fold(E.max_)([E.abs_(x) for x in xs])
    else:
        raise Unsupported(f"vector norm ord={ord_}")
    return _reduce(a, dims, keep, f, E.ZERO)


@sem("cumsum")
def _cumsum(st, func, args, kwargs, out):
    a = PN(st, args[0])
    dim = args[1] % max(a.ndim, 1)
    r = a.copy()
    for i in range(1, a.shape[dim]):
        sl = [slice(None)] * a.ndim
        sp = list(sl)
        sl[dim] = i
        sp[dim] = i - 1
        r[tuple(sl)] = _b(E.add)(r[tuple(sp)], a[tuple(sl)])
    return r


# ---- linear algebra -------------------------------------------------------------------------------
def _matmul(a: np.ndarray, b: np.ndarray) -> np.ndarray:
    """(..., n, k) @ (..., k, m) on object arrays."""
    n, k = a.shape[-2:]
    k2, m = b.shape[-2:]
    assert k == k2
    lead = np.broadcast_shapes(a.shape[:-2], b.shape[:-2])
    a = np.broadcast_to(a, lead + (n, k))
    b = np.broadcast_to(b, lead + (k, m))
    out = np.empty(lead + (n, m), dtype=object)
    for idx in np.ndindex(*lead):
        A, B = a[idx], b[idx]
        for i in range(n):
            for j in range(m):
                out[idx + (i, j)] = E.add(*[E.mul(A[i, l], B[l, j]) for l in range(k)]) if k else E.ZERO
    return out


@sem("mm", "bmm")
def _mm(st, func, args, kwargs, out):
    return _matmul(PN(st, args[0]), PN(st, args[1]))


@sem("mv")
def _mv(st, func, args, kwargs, out):
    return _matmul(PN(st, args[0]), PN(st, args[1])[:, None])[:, 0]


@sem("dot", "vdot")
def _dot(st, func, args, kwargs, out):
    a, b = PN(st, args[0]), PN(st, args[1])
    return _obj(E.add(*[E.mul(x, y) for x, y in zip(a, b)]))


@sem("addmm")
def _addmm(st, func, args, kwargs, out):
    beta, alpha = kwargs.get("beta", 1), kwargs.get("alpha", 1)
    r = _matmul(PN(st, args[1]), PN(st, args[2]))
    if alpha != 1:
        r = _b(E.mul)(r, PN(st, alpha))
    c = PN(st, args[0])
    if beta != 1:
        c = _b(E.mul)(c, PN(st, beta))
    return _b(E.add)(c, r)


@sem("baddbmm")
def _baddbmm(st, func, args, kwargs, out):
    return _addmm(st, func, args, kwargs, out)


@sem("addmv")
def _addmv(st, func, args, kwargs, out):
    beta, alpha = kwargs.get("beta", 1), kwargs.get("alpha", 1)
    r = _matmul(PN(st, args[1]), PN(st, args[2])[:, None])[:, 0]
    if alpha != 1:
        r = _b(E.mul)(r, PN(st, alpha))
    c = PN(st, args[0])
    if beta != 1:
        c = _b(E.mul)(c, PN(st, beta))
    return _b(E.add)(c, r)


def _det(M) -> Expr:
    n = len(M)
    if n == 0:
        return E.ONE
    if n == 1:
        return M[0][0]
    if n == 2:
        return E.sub(E.mul(M[0][0], M[1][1]), E.mul(M[0][1], M[1][0]))
    terms = []
    for j in range(n):
        if M[0][j] is E.ZERO:
            continue
        minor = [[M[i][l] for l in range(n) if l != j] for i in range(1, n)]
        t = E.mul(M[0][j], _det(minor))
        terms.append(t if j % 2 == 0 else E.neg(t))
    return E.add(*terms) if terms else E.ZERO


def _inv(M):
    n = len(M)
    d = _det(M)
    out = [[None] * n for _ in range(n)]
    for i in range(n):
        for j in range(n):
            minor = [[M[r][c] for c in range(n) if c != i] for r in range(n) if r != j]
            cof = _det(minor)
            if (i + j) % 2:
                cof = E.neg(cof)
            out[i][j] = E.div(cof, d)
    return out


@sem("_linalg_det")
def _linalg_det(st, func, args, kwargs, out):
    a = PN(st, args[0])
    n = a.shape[-1]
    if n > 4:
        raise Unsupported("det of matrices larger than 4x4")
    lead = a.shape[:-2]
    d = np.empty(lead, dtype=object)
    for idx in np.ndindex(*lead):
        d[idx] = _det(a[idx].tolist())
    return (d, None, None)


@sem("linalg_inv_ex")
def _linalg_inv(st, func, args, kwargs, out):
    a = PN(st, args[0])
    n = a.shape[-1]
    if n > 4:
        raise Unsupported("inverse of matrices larger than 4x4")
    lead = a.shape[:-2]
    r = np.empty(a.shape, dtype=object)
    for idx in np.ndindex(*lead):
        inv = _inv(a[idx].tolist())
        for i in range(n):
            for j in range(n):
                r[idx + (i, j)] = inv[i][j]
    return (r, None)


@sem("linalg_cross")
def _cross(st, func, args, kwargs, out):
    a, b = PN(st, args[0]), PN(st, args[1])
    dim = kwargs.get("dim", args[2] if len(args) > 2 else -1)
    a, b = np.broadcast_arrays(a, b)
    a = np.moveaxis(a, dim, -1)
    b = np.moveaxis(b, dim, -1)
    r = np.empty(a.shape, dtype=object)
    m, s = _b(E.mul), _b(E.sub)
    r[..., 0] = s(m(a[..., 1], b[..., 2]), m(a[..., 2], b[..., 1]))
    r[..., 1] = s(m(a[..., 2], b[..., 0]), m(a[..., 0], b[..., 2]))
    r[..., 2] = s(m(a[..., 0], b[..., 1]), m(a[..., 1], b[..., 0]))
    return np.moveaxis(r, -1, dim)


@sem("trace")
def _trace(st, func, args, kwargs, out):
    a = PN(st, args[0])
    return _obj(E.add(*[a[i, i] for i in range(min(a.shape))]))


# ---- nn functional --------------------------------------------------------------------------------
@sem("convolution")
def _convolution(st, func, args, kwargs, out):
    inp, w, bias, stride, padding, dilation, transposed, output_padding, groups = args[:9]
    if transposed:
        return _conv_transposed(st, args, out)
    x = PN(st, inp)
    W = PN(st, w)
    nd = x.ndim - 2
    stride = list(stride) * nd if len(stride) == 1 else list(stride)
    padding = list(padding) * nd if len(padding) == 1 else list(padding)
    dilation = list(dilation) * nd if len(dilation) == 1 else list(dilation)
    if any(p for p in padding):
        x = np.pad(x, [(0, 0), (0, 0)] + [(p, p) for p in padding], constant_values=E.ZERO)
    N, Cin = x.shape[:2]
    Cout = W.shape[0]
    cig = Cin // groups
    cog = Cout // groups
    osp = tuple(out.shape[2:])
    res = np.full((N, Cout) + osp, E.ZERO, dtype=object)
    add, mul = _b(E.add), _b(E.mul)
    for off in itertools.product(*[range(k) for k in W.shape[2:]]):
        sl = tuple(
            slice(o * d, o * d + (n - 1) * s + 1, s) for o, d, s, n in zip(off, dilation, stride, osp)
        )
        for co in range(Cout):
            g = co // cog
            for ci in range(cig):
                wv = W[(co, ci) + off]
                if wv is E.ZERO:
                    continue
                xs = x[(slice(None), g * cig + ci) + sl]
                res[:, co] = add(res[:, co], mul(xs, _obj(wv)))
    if bias is not None:
        b = PN(st, bias)
        res = add(res, b.reshape((1, Cout) + (1,) * nd))
    return res


def _conv_transposed(st, args, out):
    """out[n, co, i*stride - pad + k*dil] += x[n, ci, i] * w[ci, co_in_group, k]"""
    inp, w, bias, stride, padding, dilation, transposed, output_padding, groups = args[:9]
    x = PN(st, inp)
    W = PN(st, w)
    nd = x.ndim - 2
    stride = list(stride) * nd if len(stride) == 1 else list(stride)
    padding = list(padding) * nd if len(padding) == 1 else list(padding)
    dilation = list(dilation) * nd if len(dilation) == 1 else list(dilation)
    N, Cin = x.shape[:2]
    cog = W.shape[1]
    Cout = cog * groups
    cig = Cin // groups
    isp = x.shape[2:]
    osp = tuple(out.shape[2:])
    full = tuple((n - 1) * s_ + (k - 1) * d + 1 for n, s_, k, d in zip(isp, stride, W.shape[2:], dilation))
    res = np.full((N, Cout) + full, E.ZERO, dtype=object)
    add, mul = _b(E.add), _b(E.mul)
    for off in itertools.product(*[range(k) for k in W.shape[2:]]):
        sl = tuple(slice(o * d, o * d + (n - 1) * s_ + 1, s_) for o, d, s_, n in zip(off, dilation, stride, isp))
        for ci in range(Cin):
            g = ci // cig
            for cj in range(cog):
                wv = W[(ci, cj) + off]
                if wv is E.ZERO:
                    continue
                co = g * cog + cj
                res[(slice(None), co) + sl] = add(res[(slice(None), co) + sl], mul(x[:, ci], _obj(wv)))
    # crop padding, extend by output_padding (zeros)
    crop = tuple(slice(p, p + n) for p, n in zip(padding, osp))
    need = tuple(p + n for p, n in zip(padding, osp))
    if any(a > b for a, b in zip(need, full)):
        res = np.pad(res, [(0, 0), (0, 0)] + [(0, max(0, a - b)) for a, b in zip(need, full)], constant_values=E.ZERO)
    res = res[(slice(None), slice(None)) + crop]
    if bias is not None:
        b = PN(st, bias)
        res = add(res, b.reshape((1, Cout) + (1,) * nd))
    return res


def _src_index(o: int, in_size: int, out_size: int, align: bool, scale):
    if align:
        if out_size == 1:
            return Fraction(0)
        return Fraction(o * (in_size - 1), out_size - 1)
    if scale is not None and scale > 0:
        sc = 1 / E.rationalize(scale)
    else:
        sc = Fraction(in_size, out_size)
    x = (Fraction(o) + Fraction(1, 2)) * sc - Fraction(1, 2)
    return max(x, Fraction(0))


def _interp_linear_1d(x: np.ndarray, axis: int, out_size: int, align: bool, scale) -> np.ndarray:
    n = x.shape[axis]
    x = np.moveaxis(x, axis, -1)
    res = np.empty(x.shape[:-1] + (out_size,), dtype=object)
    add, mul = _b(E.add), _b(E.mul)
    for o in range(out_size):
        s = _src_index(o, n, out_size, align, scale)
        i0 = min(math.floor(s), n - 1)
        i1 = min(i0 + 1, n - 1)
        w1 = s - i0
        w0 = 1 - w1
        res[..., o] = add(mul(x[..., i0], _obj(E.const(w0))), mul(x[..., i1], _obj(E.const(w1))))
    return np.moveaxis(res, -1, axis)


@sem("upsample_linear1d", "upsample_bilinear2d", "upsample_trilinear3d")
def _upsample_linear(st, func, args, kwargs, out):
    x = PN(st, args[0])
    osz = list(args[1]) if args[1] is not None else list(out.shape[2:])
    align = args[2]
    nd = x.ndim - 2
    if func._overloadname == "vec":
        sf = args[3]
        scales = list(sf) if sf is not None else [None] * nd
        osz = list(out.shape[2:])
    else:
        scales = list(args[3:]) + [None] * nd
    for d in range(nd):
        x = _interp_linear_1d(x, 2 + d, osz[d], align, scales[d])
    return x


@sem("upsample_nearest1d", "upsample_nearest2d", "upsample_nearest3d")
def _upsample_nearest(st, func, args, kwargs, out):
    x = P(st, args[0])
    nd = x.ndim - 2
    osz = list(out.shape[2:])
    if func._overloadname == "vec":
        sf = args[2]
        scales = list(sf) if sf is not None else [None] * nd
    else:
        scales = list(args[2:]) + [None] * nd
    for d in range(nd):
        n = x.shape[2 + d]
        sc = scales[d]
        scale = (1 / E.rationalize(sc)) if sc else Fraction(n, osz[d])
        idx = [min(math.floor(o * scale), n - 1) for o in range(osz[d])]
        x = np.take(x, idx, axis=2 + d)
    return x


def _pool_out(n, k, s, p, ceil_mode):
    if ceil_mode:
        o = -((-(n + 2 * p - k)) // s) + 1
        if (o - 1) * s >= n + p:
            o -= 1
        return o
    return (n + 2 * p - k) // s + 1


@sem("avg_pool1d", "avg_pool2d", "avg_pool3d")
def _avg_pool(st, func, args, kwargs, out):
    x = PN(st, args[0])
    nd = x.ndim - 2 if x.ndim > (int(func._schema.name[-2]) + 1) else x.ndim - 1
    nd = int(func._schema.name[-2])
    names = ["kernel_size", "stride", "padding", "ceil_mode", "count_include_pad", "divisor_override"]
    vals = dict(zip(names, list(args[1:])))
    vals.update(kwargs)
    k = list(vals["kernel_size"])
    k = k * nd if len(k) == 1 else k
    s = list(vals.get("stride") or k)
    s = s * nd if len(s) == 1 else s
    p = list(vals.get("padding", [0]))
    p = p * nd if len(p) == 1 else p
    cip = vals.get("count_include_pad", True)
    dov = vals.get("divisor_override", None)
    lead = x.shape[:-nd]
    sp = x.shape[-nd:]
    osp = tuple(out.shape[-nd:])
    res = np.empty(lead + osp, dtype=object)
    for o in np.ndindex(*osp):
        starts = [oo * ss - pp for oo, ss, pp in zip(o, s, p)]
        ends = [min(st_ + kk, n + pp) for st_, kk, n, pp in zip(starts, k, sp, p)]
        pool_size = 1
        for a_, b_ in zip(starts, ends):
            pool_size *= b_ - a_
        lo = [max(a_, 0) for a_ in starts]
        hi = [min(b_, n) for b_, n in zip(ends, sp)]
        cnt = 1
        for a_, b_ in zip(lo, hi):
            cnt *= max(b_ - a_, 0)
        if dov:
            div = dov
        elif cip:
            div = pool_size
        else:
            div = cnt
        sl = tuple(slice(a_, b_) for a_, b_ in zip(lo, hi))
        win = x[(Ellipsis,) + sl].reshape(lead + (-1,))
        acc = np.empty(lead, dtype=object)
        for idx in np.ndindex(*lead):
            acc[idx] = E.mul(E.add(*list(win[idx])), Fraction(1, div)) if win.shape[-1] else E.ZERO
        res[(Ellipsis,) + o] = acc
    return res


def _unnorm(c: Expr, size: int, align: bool) -> Expr:
    if align:
        return E.mul(E.add(c, 1), Fraction(size - 1, 2))
    return E.mul(E.sub(E.mul(E.add(c, 1), size), 1), Fraction(1, 2))


@sem("grid_sampler_2d", "grid_sampler_3d")
def _grid_sampler(st, func, args, kwargs, out):
    inp, grid, mode, pad, align = args[:5]
    x = PN(st, inp)
    g = PN(st, grid)
    nd = x.ndim - 2
    N, C = x.shape[:2]
    isz = x.shape[2:]  # (.., Y, X)
    osp = g.shape[1:-1]
    res = np.empty((N, C) + tuple(osp), dtype=object)
    if mode == 2:
        raise Unsupported("bicubic grid_sample")
    for n in range(N):
        for o in np.ndindex(*osp):
            coords = []  # per tensor dim (.., y, x)
            for d in range(nd):
                c = g[(n,) + o + (nd - 1 - d,)]
                coords.append(_unnorm(c, isz[d], align))
            vals = _sample_point(st, x[n], coords, mode, pad)
            for ch in range(C):
                res[(n, ch) + o] = vals[ch]
    return res


def _sample_point(st: State, img: np.ndarray, coords: List[Expr], mode: int, pad: int) -> List[Expr]:
    """img: (C, *isz) object array; coords: unnormalised coordinate per spatial tensor dim."""
    C = img.shape[0]
    isz = img.shape[1:]
    nd = len(isz)
    run = st.run
    conc = []
    for c in coords:
        v = c.args[0] if c.op == "const" else None
        if v is None:
            try:
                v = run.ring.const_value(c) if E.size(c) < 3000 else None
            except Exception:
                v = None
        conc.append(v)
    if all(v is not None for v in conc):
        if pad == 1:
            conc = [min(max(v, Fraction(0)), Fraction(n - 1)) for v, n in zip(conc, isz)]
        elif pad == 2:
            raise Unsupported("reflection padding in grid_sample")
        if mode == 1:
            idx = []
            for v, n in zip(conc, isz):
                if abs((v % 1) - Fraction(1, 2)) < Fraction(1, 5000):
                    # (near) tie between two voxels: torch decides it in float32 arithmetic of the coordinate pipeline -
                    # which voxel is taken is not a fact about real numbers; the sample is an unknown value
                    st.opaque_ops["grid_sampler(nearest, tie at a cell border)"] += 1
                    return list(st.fresh((C,), "nearest-tie"))
                # round half to even like nearbyint
                r = round(v)
                idx.append(r)
            if all(0 <= i < n for i, n in zip(idx, isz)):
                return [img[(ch,) + tuple(idx)] for ch in range(C)]
            return [E.ZERO] * C
        outs = [[] for _ in range(C)]
        lows = [math.floor(v) for v in conc]
        for corner in itertools.product((0, 1), repeat=nd):
            w = Fraction(1)
            idx = []
            for d in range(nd):
                f = conc[d] - lows[d]
                w *= f if corner[d] else (1 - f)
                idx.append(lows[d] + corner[d])
            if w == 0:
                continue
            if all(0 <= i < n for i, n in zip(idx, isz)):
                for ch in range(C):
                    outs[ch].append(E.mul(img[(ch,) + tuple(idx)], w))
        return [E.add(*o) if o else E.ZERO for o in outs]
    # symbolic coordinates: rebuilt from their ring normal form first (cancels R^T R, s / s, ... so that a coordinate
    # that is linear in the free symbols also looks linear to the cheap entailment checks)
    simp = []
    for c in coords:
        try:
            simp.append(run.ring.simplified(c) if E.size(c) < 3000 else c)
        except Exception:
            simp.append(c)
    return _sample_symbolic(st, img, simp, mode, pad)


def _affine_fit(run, img_c: np.ndarray):
    """If img_c[idx] == a0 + sum_d a_d * idx_d exactly (ring), return (a0, [a_d]); else None."""
    nd = img_c.ndim
    origin = (0,) * nd
    a0 = img_c[origin]
    coef = []
    for d in range(nd):
        if img_c.shape[d] < 2:
            coef.append(E.ZERO)
            continue
        e = list(origin)
        e[d] = 1
        coef.append(E.sub(img_c[tuple(e)], a0))
    for idx in np.ndindex(*img_c.shape):
        pred = E.add(a0, *[E.mul(coef[d], idx[d]) for d in range(nd)])
        if pred is img_c[idx]:
            continue
        try:
            if not run.ring.prove_eq(pred, img_c[idx]):
                return None
        except Exception:
            return None
    return a0, coef


def _sample_symbolic(st: State, img: np.ndarray, coords: List[Expr], mode: int, pad: int) -> List[Expr]:
    run = st.run
    C = img.shape[0]
    isz = img.shape[1:]
    nd = len(isz)
    if mode == 0:
        # interpolation fact: multilinear interpolation reproduces a function affine in the index
        # inside the sample hull [0, n-1]^D (for any padding mode).  With border padding the coordinate
        # is clamped into the hull first.
        fits = getattr(st, "_fit_cache", None)
        if fits is None:
            fits = st._fit_cache = {}
        key = tuple(int(i) for i in _ids(img).ravel())
        fit = fits.get(key)
        if fit is None:
            fit = [_affine_fit(run, img[ch]) for ch in range(C)]
            fits[key] = fit
        if all(f is not None for f in fit):
            cs = list(coords)
            inside = True
            for d in range(nd):
                lo = E.le(E.ZERO, cs[d])
                hi = E.le(cs[d], E.const(isz[d] - 1))
                if pad == 1:
                    cs[d] = E.min_(E.max_(cs[d], E.ZERO), E.const(isz[d] - 1))
                    continue
                a = run.simplify_cond(lo)
                b = run.simplify_cond(hi)
                if not (a is True and b is True):
                    inside = False
                    break
            if inside:
                return [E.add(f[0], *[E.mul(f[1][d], cs[d]) for d in range(nd)]) for f in fit]
        # general closed form  sum_i img[i] * prod_d hat(x_d - i_d),  hat(t) = max(0, 1 - |t|)
        if int(np.prod(isz)) <= 64:
            cs = list(coords)
            if pad == 1:
                cs = [E.min_(E.max_(c, E.ZERO), E.const(n - 1)) for c, n in zip(cs, isz)]
            elif pad == 2:
                raise Unsupported("reflection padding in grid_sample")
            hats = [[E.max_(E.ZERO, E.sub(E.ONE, E.abs_(E.sub(cs[d], i)))) for i in range(isz[d])] for d in range(nd)]
            outs = []
            for ch in range(C):
                terms = []
                for idx in np.ndindex(*isz):
                    v = img[(ch,) + idx]
                    if v is E.ZERO:
                        continue
                    terms.append(E.mul(v, *[hats[d][idx[d]] for d in range(nd)]))
                outs.append(E.add(*terms) if terms else E.ZERO)
            return outs
    st.opaque_ops["grid_sampler(symbolic coordinates)"] += 1
    return list(st.fresh((C,), "sample"))


# ---- padding with values ---------------------------------------------------------------------------
@sem("constant_pad_nd")
def _constant_pad(st, func, args, kwargs, out):
    x = P(st, args[0])
    pad = list(args[1])
    v = args[2] if len(args) > 2 else kwargs.get("value", 0)
    v = P(st, v)[()]
    if args[0].dtype != torch.bool:
        v = E.num(v)
    nd = len(pad) // 2
    widths = [(0, 0)] * (x.ndim - nd) + [(pad[2 * i], pad[2 * i + 1]) for i in range(nd)][::-1]
    # negative padding crops
    sl = []
    pw = []
    for (lo, hi), n in zip(widths, x.shape):
        sl.append(slice(-lo if lo < 0 else 0, n + hi if hi < 0 else n))
        pw.append((max(lo, 0), max(hi, 0)))
    x = x[tuple(sl)]
    return np.pad(x, pw, constant_values=v)


# ---- scalars leaving the tensor world ---------------------------------------------------------------
def scalar_exit(st: State, t: torch.Tensor, real, nonzero: bool = False):
    e = st.payload(t).reshape(-1)[0]
    if nonzero and e.sort != "B":
        e = E.ne(e, E.ZERO)
    run = st.run
    if e.op in ("const", "bconst"):
        return real
    if st.in_format or _in_repr():
        return real  # values only flow into a string (repr / format): no constraint, no decision
    if e.sort == "B":
        return run.decide(e)
    try:
        v = run.ring.const_value(e) if E.size(e) < 4000 else None
    except Exception:
        v = None
    if v is not None:
        return type(real)(v) if not isinstance(real, bool) else bool(v)
    # concretise: the python value is the witness; the path is restricted to payload == witness
    w = run.witness_value(e)
    if isinstance(w, float):
        raise Unsupported(f"python scalar of a transcendental symbolic value at {explore._site()}")
    run.concretized.append(f"{E.to_str(e, 3)} := {w} at {explore._site()}")
    run.ctx.assume(E.eq(e, E.const(w)))
    run.decisions.append((E.eq(e, E.const(w)), True, explore._site() + " [concretised]"))
    return real


def _in_repr() -> bool:
    import sys

    f = sys._getframe(2)
    n = 0
    while f is not None and n < 40:
        if f.f_code.co_name in ("extra_repr", "__repr__", "__str__", "_repr_html_"):
            return True
        f = f.f_back
        n += 1
    return False


def sym_allclose(st: State, a, b, rtol, atol, equal_nan=False):
    run = st.run
    pa, pb = np.broadcast_arrays(PN(st, a), PN(st, b))
    conj = []
    for x, y in zip(pa.ravel(), pb.ravel()):
        if x is y:
            continue
        d = E.sub(x, y)
        try:
            if E.size(d) < 6000 and run.ring.is_zero(d):
                continue
        except Exception:
            pass
        conj.append(E.le(E.abs_(d), E.add(E.const(atol), E.mul(E.const(rtol), E.abs_(y)))))
    return run.decide(E.and_(*conj)) if conj else True


# ======================================================================================================
MOVEMENT = {
    "view", "_unsafe_view", "reshape", "_reshape_alias", "expand", "slice", "select", "unsqueeze", "squeeze",
    "permute", "transpose", "t", "alias", "detach", "clone", "contiguous", "cat", "stack", "flip", "roll",
    "repeat", "unbind", "split", "split_with_sizes", "narrow", "unfold", "diagonal", "as_strided", "lift_fresh",
    "lift_fresh_copy", "replication_pad1d", "replication_pad2d", "replication_pad3d", "reflection_pad1d",
    "reflection_pad2d", "reflection_pad3d", "diag_embed", "diag", "tril", "triu", "view_as", "movedim",
    "expand_as", "unsafe_split", "unsafe_chunk", "chunk", "tile", "repeat_interleave", "rot90", "hstack", "vstack",
    "_unsafe_index", "squeeze_copy", "slice_scatter", "select_scatter", "lift", "numpy_T", "adjoint", "mT", "mH",
    "swapaxes", "swapdims", "flatten", "unflatten", "ravel", "take_along_dim", "pixel_shuffle", "im2col",
    "new_empty_strided", "_to_dense", "resolve_conj", "resolve_neg", "_conj", "conj", "view_as_real", "atleast_1d",
    "constant_pad_nd_",  # never
}
# movement with concrete integer index tensors
INDEXED = {"index", "index_select", "gather", "index_put", "_unsafe_index_put", "scatter", "index_copy", "take", "index_fill",
           "masked_select", "masked_scatter", "nonzero"}
FACTORY = {
    "zeros", "ones", "empty", "full", "eye", "arange", "linspace", "zeros_like", "ones_like", "empty_like", "full_like",
    "new_zeros", "new_ones", "new_empty", "new_full", "scalar_tensor", "empty_strided", "logspace", "tensor", "range",
    "tril_indices", "triu_indices", "_efficientzerotensor", "hann_window", "hamming_window",
}
RANDOM = {"rand", "randn", "rand_like", "randn_like", "randint", "randint_like", "normal", "uniform", "bernoulli", "multinomial",
          "randperm", "random", "exponential", "native_dropout", "dropout", "poisson"}


def _base_name(func) -> str:
    n = func._schema.name.split("::")[1]
    if n.endswith("_") and not n.startswith("__") and n[:-1] and not n.endswith("__"):
        return n[:-1]
    return n


def _tensors(x, acc):
    if isinstance(x, torch.Tensor):
        acc.append(x)
    elif isinstance(x, (list, tuple)):
        for y in x:
            _tensors(y, acc)
    return acc


def _map_tensors(x, f):
    if isinstance(x, torch.Tensor):
        return f(x)
    if isinstance(x, (list, tuple)):
        return type(x)(_map_tensors(y, f) for y in x)
    return x


_AMPLIFYING = {"mul", "div", "true_divide", "addcmul", "addcdiv", "mm", "bmm", "mv", "dot", "addmm", "baddbmm", "convolution", "pow",
               "reciprocal", "linalg_inv_ex", "_linalg_det",
               # sums and interpolation cancel: the float32 rounding error of the operands is relative to *their* magnitude,
               # not to that of the (possibly much smaller) result
               "add", "sub", "sum", "mean", "cumsum", "grid_sampler_2d", "grid_sampler_3d", "lerp", "avg_pool2d", "avg_pool3d",
               "upsample_bilinear2d", "upsample_trilinear3d", "upsample_linear1d"}


def _amplification(name, args) -> float:
    """Rounding error already present in the witness values of the operands is amplified by products / quotients:
    the validation tolerance is scaled by the magnitudes involved (e.g. x * 10^12 in round_decimals)."""
    if name not in _AMPLIFYING:
        return 1.0
    scale = 1.0
    for a in args[:3]:
        try:
            if isinstance(a, torch.Tensor):
                if a.numel() and a.dtype.is_floating_point:
                    m = float(a.detach().abs().max())
                    if name in ("div", "true_divide", "reciprocal") and a is args[-1 if name != "reciprocal" else 0]:
                        mn = float(a.detach().abs().min())
                        m = max(m, 1.0 / mn) if mn > 0 else m
                    scale *= 1.0 + m
            elif isinstance(a, (int, float)):
                scale *= 1.0 + abs(float(a))
        except Exception:
            pass
    return min(scale, 1e30)


class SymMode(TorchDispatchMode):
    def __init__(self, state: State):
        super().__init__()
        self.st = state

    def __torch_dispatch__(self, func, types, args=(), kwargs=None):
        kwargs = kwargs or {}
        st = self.st
        name = _base_name(func)
        st.op_count[name] += 1
        schema = func._schema
        # ---- scalar exits (no tensor result)
        if name == "_local_scalar_dense" or name == "item":
            real = func(*args, **kwargs)
            return scalar_exit(st, args[0], real)
        if name == "is_nonzero":
            real = func(*args, **kwargs)
            return bool(scalar_exit(st, args[0], real, nonzero=True))
        if name == "allclose":
            rtol = kwargs.get("rtol", args[2] if len(args) > 2 else 1e-5)
            atol = kwargs.get("atol", args[3] if len(args) > 3 else 1e-8)
            return sym_allclose(st, args[0], args[1], rtol, atol)
        if name == "equal":
            if tuple(args[0].shape) != tuple(args[1].shape):
                return False
            return sym_allclose(st, args[0], args[1], 0, 0)

        in_tensors = _tensors(list(args) + list(kwargs.values()), [])
        written = []
        for i, a in enumerate(schema.arguments):
            if a.alias_info is not None and a.alias_info.is_write:
                v = args[i] if i < len(args) else kwargs.get(a.name)
                if isinstance(v, torch.Tensor):
                    written.append(v)
        for w in written:
            k = w.untyped_storage()._cdata
            if name in METADATA_ONLY and id(w) not in getattr(st, "protected_objs", {}):
                continue  # reshapes a (fresh) view object in place; no element of the storage is written
            if k in st.protected:
                st.frame_violations.append(FrameViolation(str(func), explore._site(), st.protected[k]))

        symbolic_in = any(not st.is_concrete(t) for t in in_tensors)
        if (not symbolic_in and name == "_to_copy" and in_tensors and kwargs.get("dtype") == torch.float64
                and in_tensors[0].dtype in (torch.float32, torch.float16, torch.bfloat16)):
            # widening a concrete single-precision tensor: read its values as the reals they denote *before* the
            # conversion (a float64 tensor holding float32-rounded values would be taken literally afterwards)
            st._flat(in_tensors[0])
            symbolic_in = True
        # make sure shadows of inputs exist BEFORE the real op mutates anything in place
        if symbolic_in:  # (an in-place operation among concrete tensors stays concrete)
            for t in in_tensors:
                st._flat(t)

        pre = None
        if written and name not in MOVEMENT and name not in INDEXED and name != "copy":
            # semantic in-place op: payload must be computed from the *old* payload -> handlers read shadows,
            # which the real op does not touch.
            pass

        if name in RANDOM:
            st.random_ops[name] += 1
        out = func(*args, **kwargs)

        if not symbolic_in and name not in RANDOM and not any(not st.is_concrete(w) for w in written):
            # fully concrete computation: results stay concrete (interned lazily); but storages written in
            # place that already have a shadow were handled by the condition above.
            return out

        outs = _tensors(out, []) if not isinstance(out, torch.Tensor) else [out]
        try:
            self._symbolic(func, name, args, kwargs, out, outs, written, in_tensors)
        except Unsupported as ex:
            st.opaque_ops[f"{name}: {ex}"] += 1
            self._opaque(name, outs)
        return out

    # ---------------------------------------------------------------------------------------------
    def _opaque(self, name, outs):
        st = self.st
        for o in outs:
            if o.numel() > 4096:
                raise Unsupported(f"opaque result of {name} too large")
            st.set_payload(o, st.fresh(tuple(o.shape), name, "B" if o.dtype == torch.bool else ("R" if o.dtype.is_floating_point else "I")))

    def _symbolic(self, func, name, args, kwargs, out, outs, written, in_tensors):
        st = self.st
        if name in MOVEMENT or (name in INDEXED):
            self._movement(func, name, args, kwargs, out, outs, written)
            return
        if name in FACTORY:
            return
        h = SEM.get(name)
        if h is None:
            if name in RANDOM:
                st.opaque_ops[f"random:{name}"] += 1
                self._opaque(name, outs)
                return
            raise Unsupported("no symbolic semantics")
        res = h(st, func, args, kwargs, out)
        if isinstance(out, torch.Tensor):
            res = (res,)
            out_list = [out]
        else:
            out_list = list(out)
        for o, r in zip(out_list, res):
            if not isinstance(o, torch.Tensor):
                continue
            if r is None:
                # auxiliary outputs (LU factors, info flags): opaque
                st.set_payload(o, st.fresh(tuple(o.shape), name + ".aux", "R" if o.dtype.is_floating_point else "I"))
                continue
            r = _obj(r)
            if r.shape != tuple(o.shape):
                try:
                    r = np.broadcast_to(r, tuple(o.shape))
                except ValueError:
                    raise ModelMismatch(f"{func}: payload shape {r.shape} != result shape {tuple(o.shape)}")
            if o.dtype == torch.bool:
                r = _tobool_arr(r)
            st.set_payload(o, r)
            amp = _amplification(name, args)
            if amp > 1e4 or any(t.untyped_storage()._cdata in st.noisy for t in in_tensors):
                # witness rounding error has been amplified beyond what a comparison can tolerate (e.g. x * 10^12 before
                # rounding to 12 decimals): values derived from it are not validated
                st.noisy.add(o.untyped_storage()._cdata)
                continue
            self._validate(func, o, r, amp)

    def _movement(self, func, name, args, kwargs, out, outs, written):
        st = self.st
        if name in ("lift_fresh", "alias", "detach", "view", "_unsafe_view", "expand", "slice", "select", "unsqueeze",
                    "squeeze", "permute", "transpose", "t", "unbind", "split", "split_with_sizes", "narrow", "unfold",
                    "diagonal", "as_strided", "_reshape_alias") and all(
            o.untyped_storage()._cdata in st.shadows for o in outs
        ):
            return  # views of shadowed storage: nothing to do
        idx_names = ("indices", "index")

        def conv(x, argname=None):
            if isinstance(x, torch.Tensor):
                if argname in idx_names or (name in INDEXED and x.dtype in (torch.int64, torch.int32, torch.bool, torch.uint8) and argname not in ("self", "src", "source", "values", "input")):
                    if not st.is_concrete(x):
                        pl = st.payload(x).ravel()
                        if not all(e.op in ("const", "bconst") for e in pl):
                            raise Unsupported("symbolic index tensor")
                    return x
                return st.shadow(x)
            if isinstance(x, (list, tuple)):
                return type(x)(conv(y, argname) for y in x)
            return x

        sargs = []
        for i, a in enumerate(args):
            an = func._schema.arguments[i].name if i < len(func._schema.arguments) else None
            sargs.append(conv(a, an))
        skw = {k: conv(v, k) for k, v in kwargs.items()}
        if name in ("masked_select", "nonzero", "masked_scatter"):
            raise Unsupported(f"{name} with symbolic data")
        if name in ("scatter", "index_fill") and not isinstance(sargs[-1], torch.Tensor):
            raise Unsupported(f"{name} with scalar value")
        if name in ("index_put", "_unsafe_index_put"):
            skw.pop("accumulate", None)
            if (len(args) > 3 and args[3]) or kwargs.get("accumulate"):
                raise Unsupported("index_put accumulate")
        # dtype-related keyword arguments are meaningless for the shadow
        for k in ("dtype", "memory_format", "pin_memory", "layout", "device"):
            skw.pop(k, None)
        sout = func(*sargs, **skw)
        souts = _tensors(sout, []) if not isinstance(sout, torch.Tensor) else [sout]
        for o, so in zip(outs, souts):
            k = o.untyped_storage()._cdata
            if k in st.shadows:
                if written and any(o.untyped_storage()._cdata == w.untyped_storage()._cdata for w in written):
                    continue  # in-place movement executed directly on the shadow
                if so.untyped_storage()._cdata == st.shadows[k][1].untyped_storage()._cdata:
                    continue
                # result shares an already shadowed storage (view): nothing to do
                continue
            st.set_shadow(o, so)

    def _validate(self, func, o: torch.Tensor, r: np.ndarray, scale: float = 1.0):
        st = self.st
        run = st.run
        if not st.validate or not run.on_witness:
            return
        if o.numel() > 2048:
            return
        real = o.detach().reshape(-1).tolist()
        flt = o.dtype.is_floating_point
        tol = 2e-3 if o.dtype in (torch.float32, torch.float16, torch.bfloat16) else 1e-7
        for e, rv in zip(r.reshape(-1), real):
            try:
                v = run.witness_value(e)
            except KeyError:
                continue  # fresh opaque symbols have no witness
            if isinstance(v, bool) or isinstance(rv, bool):
                ok = bool(v) == bool(rv)
            else:
                fv = float(v)
                if fv != fv or rv != rv or abs(rv) == math.inf:
                    continue
                ok = abs(fv - rv) <= tol * max(1.0, abs(fv), abs(rv)) * scale if flt else (abs(fv - rv) < 0.5)
            if not ok:
                raise ModelMismatch(
                    f"{func} at {explore._site()}: symbolic semantics gives {v} but torch computed {rv} (payload {E.to_str(e, 4)})"
                )
        st.validated += 1


class SymFnMode(TorchFunctionMode):
    """Python-level escapes that read tensor memory without going through the dispatcher."""

    def __init__(self, state: State):
        super().__init__()
        self.st = state

    def __torch_function__(self, func, types, args=(), kwargs=None):
        kwargs = kwargs or {}
        st = self.st
        if func is torch.Tensor.tolist:
            t = args[0]
            if not st.is_concrete(t):
                flat = [x.item() for x in t.reshape(-1)]
                return np.array(flat, dtype=object).reshape(tuple(t.shape)).tolist() if t.ndim else flat[0]
        elif func in (torch.Tensor.numpy, torch.Tensor.__array__):
            t = args[0]
            if not st.is_concrete(t):
                for x in t.reshape(-1):
                    x.item()
        elif func in (torch.tensor, torch.as_tensor) and args and isinstance(args[0], (list, tuple)):
            data = args[0]
            flat = _tensors(data, [])
            if flat and any(not st.is_concrete(t) for t in flat):
                def build(x):
                    if isinstance(x, torch.Tensor):
                        return x.detach() if func is torch.tensor else x
                    if isinstance(x, (list, tuple)):
                        return torch.stack([build(y) for y in x])
                    return torch.tensor(x)
                r = build(data)
                dt = kwargs.get("dtype")
                if dt is not None:
                    r = r.to(dt)
                return r
        elif func is torch.Tensor.__format__ or func is torch.Tensor.__repr__:
            st.in_format += 1
            try:
                return func(*args, **kwargs)
            finally:
                st.in_format -= 1
        return func(*args, **kwargs)


# ======================================================================================================
# public helpers for contracts
# ======================================================================================================
class Session:
    """Context manager: activates both modes for one Run."""

    def __init__(self, run: "explore.Run", validate: bool = True):
        self.state = State(run, validate)
        self._m1 = SymFnMode(self.state)
        self._m2 = SymMode(self.state)

    def __enter__(self):
        global STATE
        STATE = self.state
        self._m1.__enter__()
        self._m2.__enter__()
        return self.state

    def __exit__(self, *exc):
        global STATE
        self._m2.__exit__(*exc)
        self._m1.__exit__(*exc)
        STATE = None
        return False


def sym_tensor(st: State, exprs, dtype=torch.float32) -> torch.Tensor:
    """Real tensor whose values are the witness evaluation of ``exprs`` and whose payload is ``exprs``."""
    arr = np.empty(np.shape(exprs) if not isinstance(exprs, np.ndarray) else exprs.shape, dtype=object)
    src = np.asarray(exprs, dtype=object) if not isinstance(exprs, np.ndarray) else exprs
    for idx in np.ndindex(*arr.shape):
        arr[idx] = E.lift(src[idx])
    with _disable_current_modes():
        vals = np.empty(arr.shape, dtype=np.float64)
        for idx in np.ndindex(*arr.shape):
            v = st.run.witness_value(arr[idx])
            vals[idx] = float(v)
        t = torch.from_numpy(vals).to(dtype).clone()
        st.set_payload(t, arr)
    return t


def payload(st: State, t: torch.Tensor) -> np.ndarray:
    with _disable_current_modes():
        if isinstance(t, torch.Tensor) and type(t) is not torch.Tensor:
            t = t.as_subclass(torch.Tensor)
        return st.payload(t.detach())
