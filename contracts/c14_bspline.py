"""C14 - cubic B-spline weights, evaluation, control grid size, subdivision (deepali.core.bspline / kernels)."""
from __future__ import annotations

import itertools
from fractions import Fraction

import numpy as np
import torch

from spec import bspline as SB
from vc import expr as E
from vc.contract import Raised, register

Q14W = ("C14: the interpolation weights used for any control-point stride are the analytic cubic B-spline basis (partition of unity, "
        "derivative weights summing to zero, linear precision)")
Q14E = ("C14: a free-form deformation whose coefficients are a linear function of position reproduces that function exactly and its "
        "derivative modes return the analytic spline derivatives; the two evaluation algorithms agree")
Q14G = "C14: the control grid is always large enough that the evaluated field covers the whole image grid"
Q14S = "C14: subdividing the control grid leaves the represented function unchanged on its domain"


@register
class BSplineWeights:
    target = "deepali.core.bspline:cubic_bspline_interpolation_weights"
    properties = ("C14",)

    def cases(self, tier):
        for s in range(1, 17):
            for d in range(0, 5):
                yield {"stride": s, "derivative": d}
        yield {"lemma": True}

    def run(self, case, K):
        from deepali.core.bspline import cubic_bspline_interpolation_weights

        if case.get("lemma"):
            # properties of the analytic basis itself, for a symbolic offset t (spec lemma, not about the code)
            t = K.real("t", 0, 1)
            for d in range(4):
                w = SB.basis_weights(t, d)
                K.ensure_eq(f"unity[{d}]", E.add(*w), 1 if d == 0 else 0, text="analytic basis: partition of unity / derivative weights sum to zero", kind="helper")
                K.ensure_eq(f"linear[{d}]", E.add(*[E.mul(w[k], k - 1) for k in range(4)]), [t, 1, 0, 0][d], text="analytic basis: linear precision", kind="helper")
            return
        s, d = case["stride"], case["derivative"]
        for dt in (torch.float64, None):
            res = K.call(cubic_bspline_interpolation_weights, s, d, dtype=dt)
            if not K.ensure_returns(res, text="weights are available for every stride in [1, 16] and derivative order"):
                return
            want = np.array([SB.basis_weights(Fraction(r, s), d) for r in range(s)], dtype=object)
            K.ensure("shape", E.bconst(tuple(res.shape) == (s, 4)), text="one row of 4 weights per offset r/stride", kind="helper")
            if tuple(res.shape) != (s, 4):
                return
            if dt is None and K.mode == "sym":
                continue  # float32 weights are compared numerically (bounded mode); the exact comparison uses float64
            K.ensure_eq("weights" if dt is not None else "weights32", res, want, text=Q14W, tol=1e-12 if dt is not None else 2e-6)
            if dt is not None:
                rows = K.val(res)
                for r in range(s):
                    K.ensure_eq(f"unity[{r}]", E.add(*rows[r]), 1 if d == 0 else 0, text=Q14W + " [rows sum to 1 / 0]", tol=1e-12)
                    if d == 0:
                        K.ensure_eq(f"linear[{r}]", E.add(*[E.mul(rows[r, k], k - 1) for k in range(4)]), Fraction(r, s), text=Q14W + " [linear precision]", tol=1e-12)
        if d <= 2 and s > 1:
            bad = np.array([SB.basis_weights(Fraction(r + 1, s), d) for r in range(s)], dtype=object)
            K.ensure_eq("mustfail", K.call(cubic_bspline_interpolation_weights, s, d, dtype=torch.float64), bad, text="offsets shifted by one sample", must_fail=True)


def bspline_expr(x, d):
    a = E.abs_(x)
    sg = E.ite(E.le(0, x), E.ONE, E.MONE)
    a2, a3 = E.mul(a, a), E.mul(a, a, a)
    two_a = E.sub(2, a)
    if d == 0:
        inner = E.add(Fraction(2, 3), E.neg(a2), E.mul(Fraction(1, 2), a3))
        outer = E.mul(Fraction(1, 6), two_a, two_a, two_a)
    elif d == 1:
        inner = E.mul(sg, E.add(E.mul(-2, a), E.mul(Fraction(3, 2), a2)))
        outer = E.mul(sg, Fraction(-1, 2), two_a, two_a)
    else:
        inner = E.add(-2, E.mul(3, a))
        outer = two_a
    return E.ite(E.lt(a, 1), inner, E.ite(E.lt(a, 2), outer, E.ZERO))


@register
class BSplineValue:
    """kernels.cubic_bspline_value is a pure Python scalar function: called with a symbolic real x, all paths."""

    target = "deepali.core.kernels:cubic_bspline_value"
    properties = ("C14",)

    def cases(self, tier):
        for d in (0, 1, 2):
            yield {"derivative": d}

    def run(self, case, K):
        from deepali.core.kernels import cubic_bspline_value

        d = case["derivative"]
        x = K.real("x", draw=(-3, 3))
        arg = x if K.mode == "sym" else float(K.value(x))
        res = K.call(cubic_bspline_value, arg, derivative=d)
        if not K.ensure_returns(res):
            return
        K.ensure_eq("value", res if K.mode == "sym" else np.array(float(res)), bspline_expr(x, d), text=Q14W + " [kernels.cubic_bspline_value equals the same basis for every real x]", tol=1e-9)


@register
class ControlPointGridSize:
    """Python-int arithmetic: decided by exhaustive evaluation over the stated finite range (bounded in `size`)."""

    target = "deepali.core.bspline:cubic_bspline_control_point_grid_size"
    properties = ("C14",)
    n_bounded = 0

    def cases(self, tier):
        top = 64 if tier == "quick" else 320
        for lo in range(1, top + 1, 32):
            yield {"size_from": lo, "size_to": min(lo + 31, top)}

    def run(self, case, K):
        from deepali.core.bspline import cubic_bspline_control_point_grid_size

        for m in range(case["size_from"], case["size_to"] + 1):
            for s in range(1, 17):
                n = K.call(cubic_bspline_control_point_grid_size, m, s)
                ok = (not isinstance(n, Raised)) and isinstance(n, int) and (n - 3) * s >= m
                K.ensure(f"covers[{m},{s}]", E.bconst(ok), text=Q14G + f" [size={m}, stride={s}: evaluated field has (n-3)*stride samples, n={n!r}]")
                if ok:
                    K.ensure(f"tight[{m},{s}]", E.bconst((n - 4) * s < m), text="no superfluous control point", kind="helper")
        # sequences, in tensor order
        n = K.call(cubic_bspline_control_point_grid_size, (7, 10, 5), (2, 5, 3))
        K.ensure("seq", E.bconst(tuple(n) == (7, 5, 5)), text="per-axis sizes and strides are paired in the given order", kind="helper")


@register
class ControlPointGridPlacement:
    """cubic_bspline_control_point_grid(grid, stride): the grid of control points of a spline whose evaluated field lies on
    `grid`: control point k (per axis) sits at image index (k - 1) * stride, i.e. the control grid starts one control point
    before the first image sample, its points are `stride` image samples apart along the image axes, and - with the size
    decided above - its last-but-one point lies at or beyond the last image sample, so the evaluated field covers the
    whole image grid in world space for every orientation."""

    target = "deepali.core.bspline:cubic_bspline_control_point_grid"
    properties = ("C14",)

    def cases(self, tier):
        for D in (2, 3):
            for stride in ((1, 2, 3) if D == 2 else (2,)) + (((4, 2),) if D == 2 else ((1, 2, 3),)):
                yield {"D": D, "stride": stride}

    def run(self, case, K):
        from contracts.common import as_affine, make_grid
        from deepali.core.bspline import cubic_bspline_control_point_grid
        from deepali.core.grid import Axes
        from spec import grid as SG

        D, stride = case["D"], case["stride"]
        sizes = (7, 5) if D == 2 else (5, 4, 6)
        g, gs = make_grid(K, "g", D, sizes=sizes)
        cp = K.call(cubic_bspline_control_point_grid, g, stride)
        if not K.ensure_returns(cp, text=Q14G):
            return
        st = [stride] * D if isinstance(stride, int) else list(stride)
        M = K.call(cp.transform, Axes.GRID, Axes.WORLD)
        if not K.ensure_returns(M):
            return
        # spec: world position of control point k = image index_to_world((k - 1) * s)
        A, t = SG.point_map(gs, "grid", gs, "world")
        want = np.empty((D, D + 1), dtype=object)
        for i in range(D):
            for j in range(D):
                want[i, j] = E.mul(A[i, j], st[j])
            want[i, D] = E.sub(t[i], E.add(*[E.mul(A[i, j], st[j]) for j in range(D)]))
        K.ensure_eq("placement", as_affine(K, M)[:D], want, text=Q14G + " [control point k lies at image index (k-1)*stride: world map of the control grid]")
        n = [int(v) for v in cp.size()]
        K.ensure("covers", E.bconst(all((n[d] - 3) * st[d] >= sizes[d] for d in range(D))), text=Q14G + " [size]")


def spline_spec(c: np.ndarray, strides, derivs, shape=None):
    """Tensor-product evaluation  out[j] = sum_k c[floor(j/s) + k] * w[j mod s][k]  per axis, from the analytic basis.
    c: (N, C, *n) object array; strides/derivs in tensor-axis order."""
    out = c
    for ax, (s, d) in enumerate(zip(strides, derivs)):
        axis = 2 + ax
        n = out.shape[axis]
        m = (n - 3) * s
        moved = np.moveaxis(out, axis, -1)
        res = np.empty(moved.shape[:-1] + (m,), dtype=object)
        for j in range(m):
            i, r = divmod(j, s)
            w = SB.basis_weights(Fraction(r, s), d)
            acc = None
            for k in range(4):
                term = np.frompyfunc(lambda v, wk=w[k]: E.mul(v, wk), 1, 1)(moved[..., i + k])
                acc = term if acc is None else np.frompyfunc(E.add, 2, 1)(acc, term)
            res[..., j] = acc
        out = np.moveaxis(res, -1, axis)
    if shape is not None:
        out = out[(slice(None), slice(None)) + tuple(slice(0, n) for n in shape)]
    return out


EVAL_CASES = [
    # D, control points (tensor order), stride (x, ...), derivative (x, ...), crop shape or None, N, C
    (1, (5,), (3,), (0,), None, 1, 2),
    (1, (6,), (2,), (1,), (5,), 2, 1),
    (1, (5,), (4,), (2,), (7,), 1, 1),
    (2, (5, 4), (2, 3), (0, 0), None, 1, 1),
    (2, (4, 5), (3, 2), (1, 0), (3, 5), 1, 2),
    (2, (4, 4), (1, 2), (0, 2), None, 2, 1),
    (3, (4, 4, 5), (2, 1, 2), (0, 0, 0), (2, 2, 3), 1, 1),
    (3, (4, 5, 4), (2, 2, 3), (0, 1, 0), None, 1, 1),
]


@register
class EvaluateCubicBSpline:
    target = "deepali.core.bspline:evaluate_cubic_bspline"
    properties = ("C14",)
    tol = 1e-5

    def cases(self, tier):
        for i, c in enumerate(EVAL_CASES):
            if tier == "quick" and i in (6,):
                continue
            yield {"case": i, "what": "values"}
        for i in (0, 3):
            yield {"case": i, "what": "linear-precision"}
        for i, (D, n, s) in enumerate([(1, (5,), (2,)), (1, (5,), (3,)), (2, (4, 5), (2, 3))]):
            yield {"transpose": i, "what": "transpose"}

    def run(self, case, K):
        from deepali.core.bspline import evaluate_cubic_bspline

        if case["what"] == "transpose":
            D, n, s = [(1, (5,), (2,)), (1, (5,), (3,)), (2, (4, 5), (2, 3))][case["transpose"]]
            ec = K.reals("c", (1, 1) + n)
            c = K.tensor(ec, dtype=torch.float64 if K.mode == "sym" else torch.float32)
            shape = tuple((k - 3) * st for k, st in zip(n, s[::-1]))
            a = K.call(evaluate_cubic_bspline, c, stride=s, shape=shape, transpose=False)
            b = K.call(evaluate_cubic_bspline, c, stride=s, shape=shape, transpose=True)
            if K.ensure_returns(a) and K.ensure_returns(b):
                K.ensure_eq("agree", b, a, text=Q14E + " [transpose=True equals transpose=False on the cropped range]")
            # the same with caller-supplied per-axis kernels in (x, ...) order, as the free-form deformation models pass them
            from deepali.core.kernels import cubic_bspline1d

            ks = [cubic_bspline1d(st) for st in s]
            bk = K.call(evaluate_cubic_bspline, c, stride=s, shape=shape, kernel=ks, transpose=True)
            if K.ensure_returns(a) and K.ensure_returns(bk):
                K.ensure_eq("agree-kernels", bk, a, text=Q14E + " [transpose=True with explicit per-axis kernels equals transpose=False]")
            return
        D, n, s, d, shape, N, C = EVAL_CASES[case["case"]]
        ec = K.reals("c", (N, C) + n)
        if case["what"] == "linear-precision":
            # coefficients that are a linear function of the control point index
            a0 = K.real("a0")
            g = [K.real(f"g{i}") for i in range(D)]
            for idx in np.ndindex(*ec.shape):
                ec[idx] = E.add(a0, *[E.mul(g[i], idx[2 + i]) for i in range(D)])
        c = K.tensor(ec, dtype=torch.float64 if K.mode == "sym" else torch.float32)
        res = K.call(evaluate_cubic_bspline, c, stride=s, shape=shape, derivative=d)
        if not K.ensure_returns(res):
            return
        ts, td = s[::-1], d[::-1]  # tensor-axis order
        want = spline_spec(ec, ts, td, shape)
        K.ensure_eq("spline", res, want, text=Q14E)
        if case["what"] == "linear-precision" and all(v == 0 for v in d):
            lin = np.empty(want.shape, dtype=object)
            for idx in np.ndindex(*lin.shape):
                # output sample j sits at control-point coordinate 1 + j/stride
                lin[idx] = E.add(a0, *[E.mul(g[i], E.add(1, Fraction(idx[2 + i], ts[i]))) for i in range(D)])
            K.ensure_eq("linear", res, lin, text=Q14E + " [coefficients linear in position are reproduced exactly]")
        if all(v == 0 for v in d):
            bad = spline_spec(ec[..., ::-1], ts, td, shape)
            K.ensure_eq("mustfail", res, bad, text="coefficients mirrored", must_fail=True)


@register
class SubdivideCubicBSpline:
    target = "deepali.core.bspline:subdivide_cubic_bspline"
    properties = ("C14",)
    tol = 1e-5

    def cases(self, tier):
        for D, n in ((2, (5, 6)), (3, (5, 5, 5))):
            for dims in (None, (0,), (1,)):
                for s in (1, 2):
                    if tier == "quick" and D == 3 and (dims == (1,) or s == 2):
                        continue
                    yield {"D": D, "n": list(n), "dims": dims, "stride": s, "twice": False}
        yield {"D": 2, "n": [5, 5], "dims": (0,), "stride": 1, "twice": True}

    def run(self, case, K):
        from deepali.core.bspline import evaluate_cubic_bspline, subdivide_cubic_bspline

        D, n, s = case["D"], tuple(case["n"]), case["stride"]
        ec = K.reals("c", (1, 1) + n)
        c = K.tensor(ec, dtype=torch.float64 if K.mode == "sym" else torch.float32)
        dims = case["dims"]
        sub = K.call(subdivide_cubic_bspline, c, dims=dims)
        if not K.ensure_returns(sub):
            return
        reps = 1
        if case["twice"]:
            sub = K.call(subdivide_cubic_bspline, sub, dims=dims)
            reps = 2
        axes = list(range(D)) if dims is None else list(dims)           # spatial dims (x = 0)
        tax = [D - 1 - a for a in axes]                                   # tensor spatial axes
        f = 2 ** reps
        # original spline at stride f*s along subdivided axes vs subdivided spline at stride s
        st_old = [f * s if (D - 1 - t) in axes else s for t in range(D)]  # tensor order
        st_new = [s] * D
        old = K.call(evaluate_cubic_bspline, c, stride=st_old[::-1])
        new = K.call(evaluate_cubic_bspline, sub, stride=st_new[::-1])
        if not (K.ensure_returns(old) and K.ensure_returns(new)):
            return
        vo, vn = K.val(old), K.val(new)
        # new output j' = j + (f - 1)*s along subdivided axes
        sl_o, sl_n = [slice(None), slice(None)], [slice(None), slice(None)]
        for t in range(D):
            if t in tax:
                # the zero padding of the subdivision mask only touches the first/last new control point, whose
                # support lies outside the domain of the original spline: the whole original domain is common
                lo = 0
                hi = vo.shape[2 + t]
                sl_o.append(slice(lo, hi))
                off = (f - 1) * s
                sl_n.append(slice(lo + off, hi + off))
            else:
                sl_o.append(slice(None))
                sl_n.append(slice(None))
        a, b = vo[tuple(sl_o)], vn[tuple(sl_n)]
        K.ensure("domain", E.bconst(a.shape == b.shape and a.size > 0), text="common domain of the original and the subdivided spline", kind="helper")
        if a.shape == b.shape:
            K.ensure_eq("same-function", b, a, text=Q14S)
