"""C02 - grid <-> world convention agrees with ITK (P = O + D diag(S) I, D's columns = axis directions)."""
from __future__ import annotations

from fractions import Fraction

import numpy as np
import torch

from contracts.c01_grid import apply_spec
from contracts.common import direction, make_grid
from spec import grid as SG
from vc import expr as E
from vc.contract import Raised, register

Q2 = ("C02: a grid built from (size, origin, spacing, direction) places continuous index i at the same physical point as ITK does "
      "(P = O + D*diag(S)*i): origin is the position of sample 0, direction columns are the unit steps along each axis, and the "
      "center stored by the grid is consistent with that origin")
Q2H = "C02: converting a SimpleITK image header to a grid and back reproduces origin, spacing, direction and size"


def itk_point(o, R, s, idx):
    """ITK's documented index -> physical point formula"""
    RS = SG.matmul(R, SG.diag(s))
    y = SG.matvec(RS, idx)
    return [E.add(o[i], y[i]) for i in range(len(o))]


@register
class GridFromOrigin:
    target = "deepali.core.grid:Grid.__init__"
    properties = ("C02",)

    def cases(self, tier):
        for D in (2, 3):
            for det in (1, -1):
                for route in ("origin", "center", "origin_setter", "origin_copy"):
                    for ac in (True, False):
                        yield {"D": D, "det": det, "route": route, "align_corners": ac}

    def run(self, case, K):
        from deepali.core.grid import Grid

        D = case["D"]
        N = [K.int(f"N{i}", 2, None, draw=(2, 9)) for i in range(D)]
        s = [K.real(f"s{i}", draw=(Fraction(1, 4), 4)) for i in range(D)]
        for v in s:
            K.assume(E.lt(E.ZERO, v))
        o = [K.real(f"o{i}", draw=(-20, 20)) for i in range(D)]
        R = direction(K, "R", D, case["det"])
        RS = SG.matmul(R, SG.diag(s))
        half = [E.mul(E.sub(n, 1), Fraction(1, 2)) for n in N]
        c_spec = [E.add(o[i], SG.matvec(RS, half)[i]) for i in range(D)]
        tN, ts, tR = K.tensor(N), K.tensor(s), K.tensor(R)
        route = case["route"]
        if route == "origin":
            g = K.call(Grid, size=tN, origin=K.tensor(o), spacing=ts, direction=tR, align_corners=case["align_corners"])
        elif route == "center":
            g = K.call(Grid, size=tN, center=K.tensor(c_spec), spacing=ts, direction=tR, align_corners=case["align_corners"])
        elif route == "origin_setter":
            g = K.call(Grid, size=tN, spacing=ts, direction=tR, align_corners=case["align_corners"])
            if K.ensure_returns(g):
                r = K.call(g.origin_, K.tensor(o), modifies=[g._center])
                K.ensure("returns-self", E.bconst(r is g), text="origin_ is the in-place variant", kind="helper")
        else:
            g0 = K.call(Grid, size=tN, spacing=ts, direction=tR, align_corners=case["align_corners"])
            if not K.ensure_returns(g0):
                return
            old_center = K.val(g0.center())
            g = K.call(g0.origin, K.tensor(o))
            if K.ensure_returns(g):
                K.ensure("new-object", E.bconst(g is not g0), text="origin(o) returns a new grid", kind="helper")
                K.ensure_eq("receiver-unchanged", g0.center(), old_center, text="C15: origin(o) leaves the grid it was called on as it was", kind="helper")
        if not K.ensure_returns(g, text="construction succeeds for every valid geometry"):
            return
        K.ensure_eq("origin", g.origin(), o, text=Q2 + " [origin() is the position of sample 0]")
        K.ensure_eq("center", g.center(), c_spec, text=Q2 + " [center consistent with origin]")
        ei = K.reals("i", (2, D))  # continuous indices, inside or outside the image
        p = K.call(g.index_to_world, K.tensor(ei), decimals=None)
        if K.ensure_returns(p):
            want = np.array([itk_point(o, R, s, list(ei[m])) for m in range(2)], dtype=object)
            K.ensure_eq("index->world", p, want, text=Q2)
            back = K.call(g.world_to_index, K.tensor(want), decimals=None)
            if K.ensure_returns(back):
                K.ensure_eq("world->index", back, ei, text="C02: maps physical points back to the same continuous index")
            # the geometry must not depend on which read-only calls were made before (same answers after other uses)
            from deepali.core.grid import Axes

            for ax in (Axes.CUBE_CORNERS, Axes.CUBE, Axes.GRID):
                K.call(g.transform_vectors, K.tensor(ei), Axes.WORLD, ax)
                K.call(g.transform, Axes.GRID, ax)
            K.ensure_eq("origin-after-use", g.origin(), o, text=Q2 + " [unchanged by read-only use of the grid]")
            p2 = K.call(g.index_to_world, K.tensor(ei), decimals=None)
            if K.ensure_returns(p2):
                K.ensure_eq("index->world-after-use", p2, want, text=Q2 + " [unchanged by read-only use of the grid]")
            # transposed direction cosines would be invisible to C01: must be refuted here
            if not (D == 2 and case["det"] < 0):  # a 2-D reflection matrix is symmetric
                bad = np.array([itk_point(o, R.T, s, list(ei[m])) for m in range(2)], dtype=object)
                K.ensure_eq("mustfail", p, bad, text="direction transposed", must_fail=True)


class _Header:
    """duck-typed stand-in for a SimpleITK image / reader header (tensors keep the values symbolic)"""

    def __init__(self, size, origin, spacing, direction):
        self._v = (size, origin, spacing, direction)

    def GetSize(self):
        return self._v[0]

    def GetOrigin(self):
        return self._v[1]

    def GetSpacing(self):
        return self._v[2]

    def GetDirection(self):
        return self._v[3]


@register
class GridFromHeader:
    """Grid.from_sitk / Grid.from_reader: (size, origin, spacing, row-major flattened direction) pass through unchanged."""

    target = "deepali.core.grid:Grid.from_sitk"
    properties = ("C02",)

    def cases(self, tier):
        for D in (2, 3):
            for fn in ("from_sitk", "from_reader"):
                for ac in (True, False):
                    yield {"D": D, "fn": fn, "align_corners": ac}

    def run(self, case, K):
        from deepali.core.grid import Grid

        D = case["D"]
        N = [K.int(f"N{i}", 1, None, draw=(1, 9)) for i in range(D)]
        s = [K.real(f"s{i}", draw=(Fraction(1, 4), 4)) for i in range(D)]
        for v in s:
            K.assume(E.lt(E.ZERO, v))
        o = [K.real(f"o{i}", draw=(-20, 20)) for i in range(D)]
        R = direction(K, "R", D, 1)
        hdr = _Header(K.tensor(N), K.tensor(o), K.tensor(s), K.tensor(R.reshape(-1)))
        g = K.call(getattr(Grid, case["fn"]), hdr, align_corners=case["align_corners"])
        if not K.ensure_returns(g):
            return
        K.ensure_eq("size", g.size_tensor(), N, text=Q2H)
        K.ensure_eq("origin", g.origin(), o, text=Q2H)
        K.ensure_eq("spacing", g.spacing(), s, text=Q2H)
        K.ensure_eq("direction", g.direction(), R, text=Q2H + " [row-major flattened direction cosines]")
        K.ensure_eq("mustfail", g.direction(), R.T, text="direction read column-major", must_fail=True)


@register
class SitkAgreement:
    """Bounded: differential against the real SimpleITK (index <-> physical point, header round trip through Image.sitk())."""

    target = "deepali.data.image:Image.sitk"
    properties = ("C02",)
    symbolic = False
    n_bounded = {"quick": 12, "thorough": 60}
    tol = 2e-4

    def cases(self, tier):
        for D in (2, 3):
            for kind in ("oblique", "flip", "permute"):
                for ac in (True, False):
                    yield {"D": D, "kind": kind, "align_corners": ac}

    def run(self, case, K):
        import SimpleITK as sitk

        from deepali.core.grid import Grid
        from deepali.data import Image

        D = case["D"]
        N = [int(K.value(K.int(f"N{i}", 1, 9))) for i in range(D)]
        s = [float(K.value(K.real(f"s{i}", Fraction(1, 4), 4))) for i in range(D)]
        o = [float(K.value(K.real(f"o{i}", -50, 50))) for i in range(D)]
        if case["kind"] == "oblique":
            R = direction(K, "R", D, 1)
            Rn = np.array([[float(K.value(v)) for v in row] for row in R])
        elif case["kind"] == "flip":
            sg = [1 if K.rng.random() < 0.5 else -1 for _ in range(D)]
            if np.prod(sg) < 0:
                sg[0] = -sg[0]
            Rn = np.diag(sg).astype(float)
            if D == 2 and sg[0] < 0:
                Rn = np.diag([-1.0, -1.0])
        else:
            perm = list(range(D))
            K.rng.shuffle(perm)
            Rn = np.eye(D)[perm]
            if np.linalg.det(Rn) < 0:
                Rn[0] = -Rn[0]
        img = sitk.Image(N, sitk.sitkFloat32)
        img.SetOrigin(o)
        img.SetSpacing(s)
        img.SetDirection(Rn.reshape(-1).tolist())
        g = K.call(Grid.from_sitk, img, align_corners=case["align_corners"])
        if not K.ensure_returns(g):
            return
        idx = [[K.rng.uniform(-3, 12) for _ in range(D)] for _ in range(16)]
        itk_pts = [img.TransformContinuousIndexToPhysicalPoint(i) for i in idx]
        pts = K.call(g.index_to_world, torch.tensor(idx, dtype=torch.float64), decimals=None)
        K.ensure_eq("index->physical", pts, np.array(itk_pts), text=Q2 + " [vs ITK TransformContinuousIndexToPhysicalPoint]")
        back = K.call(g.world_to_index, torch.tensor(itk_pts, dtype=torch.float64), decimals=None)
        itk_idx = [img.TransformPhysicalPointToContinuousIndex(p) for p in itk_pts]
        K.ensure_eq("physical->index", back, np.array(itk_idx), text="C02: maps physical points back to the same continuous index [vs ITK]", tol=1e-3)
        # header round trip  sitk -> Grid/Image -> sitk
        im = Image(torch.zeros((1,) + tuple(N[::-1])), g)
        out = K.call(im.sitk)
        if K.ensure_returns(out):
            K.ensure_eq("rt-size", np.array(out.GetSize(), dtype=float), np.array(N, dtype=float), text=Q2H)
            K.ensure_eq("rt-origin", np.array(out.GetOrigin()), np.array(o), text=Q2H)
            K.ensure_eq("rt-spacing", np.array(out.GetSpacing()), np.array(s), text=Q2H)
            K.ensure_eq("rt-direction", np.array(out.GetDirection()), Rn.reshape(-1), text=Q2H)
        # the NumPy-side grid helper of the SimpleITK utilities follows the same convention
        from deepali.utils.simpleitk.grid import image_grid_attributes

        ga = K.call(image_grid_attributes, img)
        if K.ensure_returns(ga, text=Q2 + " [utils.simpleitk.grid.GridAttrs]"):
            p2 = K.call(ga.index_to_physical_space, np.array(idx))
            if K.ensure_returns(p2):
                K.ensure_eq("attrs-index->physical", np.asarray(p2), np.array(itk_pts), text=Q2 + " [GridAttrs.index_to_physical_space vs ITK]")
            i2 = K.call(ga.physical_space_to_continuous_index, np.array(itk_pts))
            if K.ensure_returns(i2):
                K.ensure_eq("attrs-physical->index", np.asarray(i2), np.array(itk_idx), text="C02: maps physical points back to the same continuous index [GridAttrs vs ITK]", tol=1e-3)
            K.ensure_eq("attrs-header", np.array(list(ga.origin) + list(ga.spacing)), np.array(o + s), text=Q2H + " [GridAttrs]")
