"""C12 - spatial derivatives of images / flow fields are exact on polynomial fields (core.image, core.flow)."""
from __future__ import annotations

import itertools
from fractions import Fraction

import numpy as np
import torch

from contracts.c14_bspline import spline_spec
from vc import expr as E
from vc.contract import Raised, register

Q12 = ("C12: with every finite-difference scheme offered, the Jacobian, Jacobian determinant (with or without the identity), divergence, "
       "curl and Lie bracket of affine vector fields equal their analytic values at every grid point (interior points for the one-sided "
       "replicate-padded schemes), scaled correctly by the given grid spacing")
Q12Q = "C12: second derivatives of quadratic fields are exact in the interior; mixed derivatives are symmetric"
Q12S = "C12: requesting a subset of derivatives returns the same values as requesting all"
Q12B = "C12: B-spline mode returns the analytic derivatives of the spline"

FD_MODES = ("forward", "backward", "central", "forward_central_backward")
ALL_MODES = FD_MODES + ("prewitt", "sobel")
SHAPES = {2: (5, 6), 3: (5, 5, 6)}
XYZ = "xyz"


def spacing_arg(K, form, N, D):
    """returns (argument for the real function, per-(n, d) expression table [N][D] in (x, ...) order)"""
    if form == "none":
        return None, None
    if form == "scalar":
        v = K.real("h", draw=(Fraction(1, 4), 3))
        K.assume(E.lt(0, v))
        return K.tensor(v), [[v] * D for _ in range(N)]
    if form == "vector":
        v = [K.real(f"h{d}", draw=(Fraction(1, 4), 3)) for d in range(D)]
        for x in v:
            K.assume(E.lt(0, x))
        return K.tensor(v), [list(v) for _ in range(N)]
    if form == "N1":
        v = [K.real(f"h{n}", draw=(Fraction(1, 4), 3)) for n in range(N)]
        for x in v:
            K.assume(E.lt(0, x))
        return K.tensor([[x] for x in v]), [[v[n]] * D for n in range(N)]
    v = [[K.real(f"h{n}_{d}", draw=(Fraction(1, 4), 3)) for d in range(D)] for n in range(N)]
    for row in v:
        for x in row:
            K.assume(E.lt(0, x))
    return K.tensor(v), v


def poly_field(K, name, N, C, shape, sp, degree=1):
    """f[n, c, idx] = b + sum_d a_d x_d (+ sum_{d<=e} q_de x_d x_e),  x_d = sp[n][d] * idx_d  (d in (x, ...) order).
    Returns (values, a[n][c][d], q[n][c][(d, e)])."""
    D = len(shape)
    vals = np.empty((N, C) + tuple(shape), dtype=object)
    A, Q = {}, {}
    for n in range(N):
        for c in range(C):
            b = K.real(f"{name}b{n}{c}")
            a = [K.real(f"{name}a{n}{c}{d}") for d in range(D)]
            q = {}
            if degree == 2:
                for d in range(D):
                    for e in range(d, D):
                        q[(d, e)] = K.real(f"{name}q{n}{c}{d}{e}")
            A[(n, c)], Q[(n, c)] = a, q
            for idx in np.ndindex(*shape):
                x = [E.mul(sp[n][d], idx[D - 1 - d]) for d in range(D)]
                v = E.add(b, *[E.mul(a[d], x[d]) for d in range(D)])
                if degree == 2:
                    v = E.add(v, *[E.mul(q[k], x[k[0]], x[k[1]]) for k in q])
                vals[(n, c) + idx] = v
    return vals, A, Q


def interior(shape, D, dims_margin):
    """slices selecting indices with the given margin along the listed spatial dims (x = 0)"""
    sl = [slice(None), slice(None)]
    for t in range(D):
        m = dims_margin.get(D - 1 - t, 0)
        sl.append(slice(m, shape[t] - m if m else None))
    return tuple(sl)


@register
class FiniteDifferences:
    target = "deepali.core.image:finite_differences"
    properties = ("C12",)

    def cases(self, tier):
        for D in (2, 3):
            for mode in FD_MODES:
                for dil in (1, 2):
                    for sdim in range(D):
                        if tier == "quick" and D == 3 and (dil == 2 or sdim == 1):
                            continue
                        yield {"D": D, "mode": mode, "dilation": dil, "sdim": sdim}

    def run(self, case, K):
        from deepali.core.image import finite_differences

        D, mode, dil, sdim = case["D"], case["mode"], case["dilation"], case["sdim"]
        shape = SHAPES[D]
        N = 2 if D == 2 else 1
        h = [K.real(f"h{n}", draw=(Fraction(1, 4), 3)) for n in range(N)]
        for v in h:
            K.assume(E.lt(0, v))
        # affine along sdim, arbitrary along the other axes:  a[others] * idx + b[others]
        t = 2 + (D - 1 - sdim)
        oshape = list((N, 1) + shape)
        oshape[t] = 1
        a = K.reals("a", oshape)
        b = K.reals("b", oshape)
        vals = np.empty((N, 1) + shape, dtype=object)
        for idx in np.ndindex(*vals.shape):
            o = list(idx)
            o[t] = 0
            vals[idx] = E.add(b[tuple(o)], E.mul(a[tuple(o)], h[idx[0]], idx[t]))
        data = K.tensor(vals)
        res = K.call(finite_differences, data, sdim, mode=mode, dilation=dil, spacing=K.tensor(h))
        if not K.ensure_returns(res):
            return
        want = np.broadcast_to(a, vals.shape)
        margin = 0 if mode == "forward_central_backward" else dil
        sl = interior(shape, D, {sdim: margin})
        got = K.val(res)
        K.ensure("shape", E.bconst(got.shape == vals.shape), text="derivative has the shape of the data", kind="helper")
        if got.shape != vals.shape:
            return
        K.ensure_eq("derivative", got[sl], want[sl], text=Q12 + " [finite_differences on data affine along the differentiated axis]")
        bad = np.frompyfunc(lambda v: E.mul(v, 2), 1, 1)(want)
        K.ensure_eq("mustfail", got[sl], bad[sl], text="divided by h instead of 2h", must_fail=True)


@register
class SpatialDerivativesAffine:
    target = "deepali.core.image:spatial_derivatives"
    properties = ("C12",)

    def cases(self, tier):
        for D in (2, 3):
            for mode in ALL_MODES:
                forms = ("none", "scalar", "vector", "N1", "ND") if (D == 2 and mode == "central") or tier == "thorough" else ("ND",)
                for form in forms:
                    if tier == "quick" and D == 3 and mode in ("forward", "backward", "prewitt"):
                        continue
                    yield {"D": D, "mode": mode, "spacing": form}

    def run(self, case, K):
        from deepali.core.image import spatial_derivatives

        D, mode = case["D"], case["mode"]
        shape = SHAPES[D]
        N = 2 if D == 2 else 1
        arg, sp = spacing_arg(K, case["spacing"], N, D)
        if sp is None:
            sp = [[E.ONE] * D for _ in range(N)]
        vals, A, _ = poly_field(K, "f", N, 1, shape, sp)
        data = K.tensor(vals)
        res = K.call(spatial_derivatives, data, mode=mode, spacing=arg)
        if not K.ensure_returns(res):
            return
        keys = list(XYZ[:D])
        K.ensure("keys", E.bconst(sorted(res.keys()) == sorted(keys)), text="one first-order derivative per spatial dimension", kind="helper")
        for d, key in enumerate(keys):
            if key not in res:
                continue
            want = np.empty(vals.shape, dtype=object)
            for n in range(N):
                want[n, 0] = A[(n, 0)][d]
            mg = {}
            if mode in ("forward", "backward", "central"):
                mg[d] = 1
            sl = interior(shape, D, mg)
            K.ensure_eq(f"d/d{key}", K.val(res[key])[sl], want[sl], text=Q12 + " [first derivatives of affine data = gradient / spacing]")
        # subset request == entries of the full request
        sub = K.call(spatial_derivatives, data, which=keys[-1], mode=mode, spacing=arg)
        if K.ensure_returns(sub):
            K.ensure_eq("subset", sub[keys[-1]], res[keys[-1]], text=Q12S)


@register
class SpatialDerivativesQuadratic:
    target = "deepali.core.image:spatial_derivatives"
    properties = ("C12",)
    QSHAPES = {2: (6, 7), 3: (5, 5, 6)}
    # bounded (float32) evaluation only: second differences divide rounding noise of O(30 eps) by h^2 with h down to 1/4
    tol = 2e-3

    def cases(self, tier):
        for D in (2, 3):
            for mode in FD_MODES:
                if tier == "quick" and D == 3 and mode != "central":
                    continue
                yield {"D": D, "mode": mode}

    def run(self, case, K):
        from deepali.core.image import spatial_derivatives

        D, mode = case["D"], case["mode"]
        shape = self.QSHAPES[D]
        N = 1
        arg, sp = spacing_arg(K, "vector", N, D)
        vals, A, Q = poly_field(K, "f", N, 1, shape, sp, degree=2)
        data = K.tensor(vals)
        res = K.call(spatial_derivatives, data, order=2, mode=mode, spacing=arg)
        if not K.ensure_returns(res):
            return
        q = Q[(0, 0)]
        for key, val in res.items():
            d, e = sorted(XYZ.index(ch) for ch in key)
            want = E.mul(2, q[(d, d)]) if d == e else q[(d, e)]
            sl = interior(shape, D, {d: 2, e: 2})
            got = K.val(val)[sl]
            K.ensure_eq(f"d2/d{key}", got, np.full(got.shape, want, dtype=object), text=Q12Q)
        for a, b in itertools.combinations(XYZ[:D], 2):
            if a + b in res and b + a in res:
                K.ensure_eq(f"sym[{a}{b}]", res[a + b], res[b + a], text=Q12Q + " [mixed derivatives symmetric]")
        full = K.call(spatial_derivatives, data, which=["xx", "yx"], mode=mode, spacing=arg)
        if K.ensure_returns(full) and "xy" in res:
            K.ensure_eq("subset-xx", full["xx"], res["xx"], text=Q12S)
            K.ensure_eq("subset-yx", full["yx"], res["xy"], text=Q12S)


@register
class SpatialDerivativesBSpline:
    target = "deepali.core.image:spatial_derivatives"
    properties = ("C12", "C14")
    tol = 1e-4

    def cases(self, tier):
        yield {"D": 2, "n": [5, 6], "stride": 1, "order": 1}
        yield {"D": 2, "n": [5, 5], "stride": 2, "order": 1}
        yield {"D": 2, "n": [5, 5], "stride": [2, 1], "order": 2}
        # 3-D: all second-order keys in one request (each mixed derivative is divided by its own two spacings), and one
        # mixed key on its own ("a subset request equals the full request")
        yield {"D": 3, "n": [4, 4, 4], "stride": 1, "order": 2}
        yield {"D": 3, "n": [4, 4, 4], "stride": 1, "which": ["xz", "yz"]}
        if tier == "thorough":
            yield {"D": 3, "n": [4, 5, 4], "stride": 1, "order": 1}
            yield {"D": 3, "n": [4, 5, 4], "stride": [2, 1, 1], "order": 2}

    def run(self, case, K):
        from deepali.core.image import spatial_derivatives

        D, n = case["D"], tuple(case["n"])
        N = 2
        arg, sp = spacing_arg(K, "ND", N, D)
        ec = K.reals("c", (N, 1) + n)
        c = K.tensor(ec, dtype=torch.float64 if K.mode == "sym" else torch.float32)
        s = case["stride"]
        if "which" in case:
            res = K.call(spatial_derivatives, c, mode="bspline", which=case["which"], spacing=arg, stride=s)
        else:
            res = K.call(spatial_derivatives, c, mode="bspline", order=case["order"], spacing=arg, stride=s)
        if not K.ensure_returns(res):
            return
        st = [s] * D if isinstance(s, int) else list(s)  # (sx, ...)
        for key, val in res.items():
            order = [0] * D
            for ch in key:
                order[XYZ.index(ch)] += 1
            want = spline_spec(ec, st[::-1], order[::-1])
            for nn in range(N):
                den = E.mul(*[E.pow_(sp[nn][d], order[d]) for d in range(D)])
                want[nn] = np.frompyfunc(lambda v, den=den: E.div(v, den), 1, 1)(want[nn])
            K.ensure_eq(f"bspline[{key}]", val, want, text=Q12B + " (divided by spacing^order per batch item)")


@register
class GaussianModeSpacing:
    """Gaussian-derivative mode is not an exact scheme (its kernels are not normalised), but it is *one* scheme for all
    axes: on a field that is linear in world position, the derivative along axis d is kappa * (slope along d) with the same
    mode constant kappa for every axis, whatever the (anisotropic, per-batch) spacing - every derivative is taken with
    respect to the spacing of its own axis."""

    target = "deepali.core.image:spatial_derivatives"
    properties = ("C12", "C13", "C17")

    def cases(self, tier):
        for D in (2, 3):
            yield {"D": D}

    def run(self, case, K):
        from deepali.core.image import spatial_derivatives

        D = case["D"]
        shape = {2: (9, 10), 3: (9, 9, 10)}[D]
        N = 2
        arg, sp = spacing_arg(K, "ND", N, D)
        vals, A, Q = poly_field(K, "f", N, 1, shape, sp, degree=1)
        res = K.call(spatial_derivatives, K.tensor(vals), mode="gaussian", order=1, spacing=arg)
        if not K.ensure_returns(res):
            return
        keys = XYZ[:D]
        centre = tuple(n // 2 for n in shape)
        for n in range(N):
            ref = K.val(res[keys[0]])[(n, 0) + centre]
            a0 = A[(n, 0)][0]
            for d in range(1, D):
                got = K.val(res[keys[d]])[(n, 0) + centre]
                # got / a_d == ref / a_0   <=>   got * a_0 == ref * a_d
                K.ensure_eq(f"same-constant[{n},{keys[d]}]", E.mul(got, a0), E.mul(ref, A[(n, 0)][d]),
                            text="C12: derivatives ... with respect to the given spacing (gaussian mode: the same mode constant for every axis, each derivative divided by the spacing of its own axis)")


def affine_flow_field(K, N, D, shape, sp, name="u"):
    """u_i(x) = b_i + sum_j A_ij x_j with x_j = sp[n][j] * idx_j; returns (values (N, D, *shape), A[n] (D x D), b[n])"""
    vals = np.empty((N, D) + tuple(shape), dtype=object)
    As, bs = [], []
    for n in range(N):
        A = K.reals(f"{name}A{n}", (D, D))
        b = K.reals(f"{name}b{n}", (D,))
        As.append(A), bs.append(b)
        for idx in np.ndindex(*shape):
            x = [E.mul(sp[n][j], idx[D - 1 - j]) for j in range(D)]
            for i in range(D):
                vals[(n, i) + idx] = E.add(b[i], *[E.mul(A[i, j], x[j]) for j in range(D)])
    return vals, As, bs


def det_expr(M):
    D = M.shape[0]
    if D == 2:
        return E.sub(E.mul(M[0, 0], M[1, 1]), E.mul(M[0, 1], M[1, 0]))
    from spec.affine import det3

    return det3(M)


@register
class FlowFieldsCurlWrapper:
    """FlowFields.curl(): the curl of the field with respect to the axes its vectors are expressed in (grid indices, either
    normalised cube, world units): on a field u(x) = A x + b with x measured in those units it is A[1,0] - A[0,1] (2-D)."""

    target = "deepali.data.flow:FlowFields.curl"
    properties = ("C12", "C10")

    def cases(self, tier):
        for axes in ("grid", "cube", "cube_corners", "world"):
            yield {"axes": axes}

    def run(self, case, K):
        from deepali.core.grid import Axes, Grid
        from deepali.data import FlowFields

        D = 2
        shape = SHAPES[D]
        size = shape[::-1]
        s = [K.real(f"s{i}", draw=(Fraction(1, 2), 3)) for i in range(D)]
        for v in s:
            K.assume(E.lt(0, v))
        g = Grid(size=size, spacing=K.tensor(s))
        ax = case["axes"]
        unit = {"grid": [E.ONE] * D, "world": s, "cube": [E.const(Fraction(2, n)) for n in size], "cube_corners": [E.const(Fraction(2, n - 1)) for n in size]}[ax]
        N = 2
        vals, A, b = affine_flow_field(K, N, D, shape, [unit] * N, "u")
        f = FlowFields(K.tensor(vals), g, Axes(ax))
        res = K.call(f.curl, mode="forward_central_backward")
        if not K.ensure_returns(res, text=Q12 + " [FlowFields.curl]"):
            return
        got = K.val(res.tensor() if hasattr(res, "tensor") else res)
        for n in range(N):
            want = E.sub(A[n][1, 0], A[n][0, 1])
            K.ensure_eq(f"curl[{n}]", got[n, 0], np.full(shape, want, dtype=object), text=Q12 + f" [curl of an affine field given in {ax} units]")


@register
class FlowJacobian:
    target = "deepali.core.flow:jacobian_det"
    properties = ("C12", "C15")

    def cases(self, tier):
        for D in (2, 3):
            for mode in ALL_MODES:
                if tier == "quick" and D == 3 and mode not in ("central", "forward_central_backward", "sobel"):
                    continue
                for fn in ("jacobian_det", "jacobian_det+I", "jacobian_matrix", "jacobian_matrix+I", "divergence", "curl", "flow_derivatives"):
                    if tier == "quick" and D == 3 and fn in ("jacobian_matrix+I", "flow_derivatives") and mode != "central":
                        continue
                    yield {"D": D, "mode": mode, "fn": fn, "spacing": "ND" if D == 2 else "vector"}
            yield {"D": D, "mode": None, "fn": "jacobian_det+I", "spacing": "none"}

    def run(self, case, K):
        from deepali.core import flow as U

        D, mode, fn = case["D"], case["mode"], case["fn"]
        shape = SHAPES[D]
        N = 2 if D == 2 else 1
        arg, sp = spacing_arg(K, case["spacing"], N, D)
        if sp is None:  # default spacing of flow derivatives: normalised cube, 2 / (n - 1)
            sp = [[E.const(Fraction(2, shape[D - 1 - j] - 1)) for j in range(D)] for _ in range(N)]
        vals, As, bs = affine_flow_field(K, N, D, shape, sp)
        u = K.tensor(vals)
        kw = dict(mode=mode, spacing=arg)
        mg = {}
        if mode in ("forward", "backward", "central"):
            mg = {d: 1 for d in range(D)}
        sl = interior(shape, D, mg)
        I = np.array([[E.ONE if i == j else E.ZERO for j in range(D)] for i in range(D)], dtype=object)
        if fn.startswith("jacobian_det"):
            addI = fn.endswith("+I")
            res = K.call(U.jacobian_det, u, add_identity=addI, **kw)
            if not K.ensure_returns(res):
                return
            want = np.empty((N, 1) + shape, dtype=object)
            for n in range(N):
                M = As[n] + I if addI else As[n]
                want[n, 0] = det_expr(np.array([[E.lift(v) for v in row] for row in M], dtype=object))
            K.ensure_eq("det", K.val(res)[sl], want[sl], text=Q12 + " [Jacobian determinant]")
            if addI:
                bad = np.empty((N, 1) + shape, dtype=object)
                for n in range(N):
                    bad[n, 0] = det_expr(As[n])
                K.ensure_eq("mustfail", K.val(res)[sl], bad[sl], text="identity not added", must_fail=True)
        elif fn.startswith("jacobian_matrix"):
            addI = fn.endswith("+I")
            res = K.call(U.jacobian_matrix, u, add_identity=addI, **kw)
            if not K.ensure_returns(res):
                return
            got = K.val(res)  # (N, ..., X, D, D)
            want = np.empty(got.shape, dtype=object)
            for n in range(N):
                M = As[n] + I if addI else As[n]
                for i in range(D):
                    for j in range(D):
                        want[n, ..., i, j] = E.lift(M[i, j])
            sl2 = (sl[0],) + sl[2:] + (slice(None), slice(None))
            K.ensure_eq("jacobian", got[sl2], want[sl2], text=Q12 + " [Jacobian matrix J[i, j] = du_i/dx_j]")
        elif fn == "divergence":
            res = K.call(U.divergence, u, **kw)
            if not K.ensure_returns(res):
                return
            want = np.empty((N, 1) + shape, dtype=object)
            for n in range(N):
                want[n, 0] = E.add(*[As[n][i, i] for i in range(D)])
            K.ensure_eq("divergence", K.val(res)[sl], want[sl], text=Q12 + " [divergence = trace]")
        elif fn == "curl":
            res = K.call(U.curl, u, **kw)
            if not K.ensure_returns(res):
                return
            want = np.empty((N, 1 if D == 2 else 3) + shape, dtype=object)
            for n in range(N):
                A = As[n]
                if D == 2:
                    want[n, 0] = E.sub(A[1, 0], A[0, 1])
                else:
                    want[n, 0] = E.sub(A[2, 1], A[1, 2])
                    want[n, 1] = E.sub(A[0, 2], A[2, 0])
                    want[n, 2] = E.sub(A[1, 0], A[0, 1])
            K.ensure_eq("curl", K.val(res)[sl], want[sl], text=Q12 + " [curl]")
        else:
            res = K.call(U.flow_derivatives, u, which=["du/dx", "dv/dy", "du/dy"], **kw)
            allr = K.call(U.flow_derivatives, u, order=1, **kw)
            if not (K.ensure_returns(res) and K.ensure_returns(allr)):
                return
            for key in res:
                K.ensure_eq(f"subset[{key}]", res[key], allr[key], text=Q12S)
            for key, val in allr.items():
                i, j = "uvw".index(key[1]), XYZ.index(key[-1])
                want = np.empty((N, 1) + shape, dtype=object)
                for n in range(N):
                    want[n, 0] = As[n][i, j]
                K.ensure_eq(f"{key}", K.val(val)[sl], want[sl], text=Q12 + " [flow_derivatives]")


@register
class LieBracket:
    target = "deepali.core.flow:lie_bracket"
    properties = ("C12", "C13", "C15")

    def cases(self, tier):
        for D in (2, 3):
            for mode in ("central", "forward_central_backward") + (("forward", "sobel") if tier == "thorough" else ()):
                if tier == "quick" and D == 3 and mode != "central":
                    continue
                yield {"D": D, "mode": mode, "what": "affine"}
        # batches of two fields with a spacing per batch item
        for form in ("ND", "N1"):
            yield {"D": 2, "mode": "forward_central_backward", "what": "affine", "batch": 2, "spacing": form}
        for mode in FD_MODES if tier == "thorough" else ("forward_central_backward",):
            yield {"D": 2, "mode": mode, "what": "algebra"}
        # with Gaussian pre-smoothing of the fields (both Jacobians are taken of equally smoothed fields)
        yield {"D": 2, "mode": "forward_central_backward", "what": "algebra", "sigma": 0.7}

    def run(self, case, K):
        from deepali.core.flow import lie_bracket

        D, mode = case["D"], case["mode"]
        if case["what"] == "algebra":
            # bilinear and antisymmetric as an identity in the voxel values (C13)
            shape = (4, 5)
            N = 1
            eu, ev, ew = K.reals("u", (N, D) + shape), K.reals("v", (N, D) + shape), K.reals("w", (N, D) + shape)
            al = K.real("alpha")
            u, v, w = K.tensor(eu), K.tensor(ev), K.tensor(ew)
            kw = {"sigma": case["sigma"]} if "sigma" in case else {}
            vu = K.call(lie_bracket, v, u, mode=mode, **kw)
            uv = K.call(lie_bracket, u, v, mode=mode, **kw)
            if not (K.ensure_returns(vu) and K.ensure_returns(uv)):
                return
            t = "C13: the Lie bracket is bilinear and antisymmetric"
            K.ensure_eq("antisymmetric", vu, np.frompyfunc(E.neg, 1, 1)(K.val(uv)), text=t)
            uu = K.call(lie_bracket, u, u, mode=mode, **kw)
            if K.ensure_returns(uu):
                K.ensure_eq("self-bracket", uu, np.full(K.val(uu).shape, E.ZERO, dtype=object), text=t + " ([u, u] = 0)")
            comb = K.tensor(np.frompyfunc(lambda a, b: E.add(E.mul(al, a), b), 2, 1)(ev, ew))
            lhs = K.call(lie_bracket, comb, u, mode=mode, **kw)
            wu = K.call(lie_bracket, w, u, mode=mode, **kw)
            if K.ensure_returns(lhs) and K.ensure_returns(wu):
                rhs = np.frompyfunc(lambda a, b: E.add(E.mul(al, a), b), 2, 1)(K.val(vu), K.val(wu))
                K.ensure_eq("bilinear", lhs, rhs, text=t)
            return
        shape = SHAPES[D]
        N = case.get("batch", 1)
        arg, sp = spacing_arg(K, case.get("spacing", "vector"), N, D)
        uvals, Au, bu = affine_flow_field(K, N, D, shape, sp, "u")
        vvals, Av, bv = affine_flow_field(K, N, D, shape, sp, "v")
        u, v = K.tensor(uvals), K.tensor(vvals)
        res = K.call(lie_bracket, v, u, mode=mode, spacing=arg)
        if not K.ensure_returns(res):
            return
        # [v, u] = J_v u - J_u v
        want = np.empty((N, D) + shape, dtype=object)
        for n in range(N):
            for idx in np.ndindex(*shape):
                for i in range(D):
                    want[(n, i) + idx] = E.sub(E.add(*[E.mul(Av[n][i, j], uvals[(n, j) + idx]) for j in range(D)]),
                                               E.add(*[E.mul(Au[n][i, j], vvals[(n, j) + idx]) for j in range(D)]))
        mg = {d: 1 for d in range(D)} if mode in ("forward", "backward", "central") else {}
        sl = interior(shape, D, mg)
        K.ensure_eq("bracket", K.val(res)[sl], want[sl], text=Q12 + " [Lie bracket [v, u] = J_v u - J_u v]")
        K.ensure_eq("mustfail", K.val(res)[sl], np.frompyfunc(E.neg, 1, 1)(want)[sl], text="sign of the bracket", must_fail=True)
