"""C01 - contracts on the coordinate maps of deepali.core.grid.Grid (and Cube)."""
from __future__ import annotations

from fractions import Fraction

import numpy as np
import torch

from contracts.common import Q1, as_affine, make_grid, outside_cube_band, outside_eq_band
from spec import grid as SG
from vc import expr as E
from vc.contract import register

AX = SG.AXES


@register
class GridTransform:
    """Grid.transform(axes, to_axes, to_grid, vectors) == the affine interpolant of the documented anchors,
    composed through world for two grids; vectors get exactly its linear part."""

    target = "deepali.core.grid:Grid.transform"
    properties = ("C01", "C05")

    def cases(self, tier):
        for D in (2, 3):
            for a in AX:
                for b in AX:
                    for vectors in (False, True):
                        for other in ("none", "same", "other"):
                            for det in ((1, -1) if tier == "thorough" else (1,)):
                                yield {"D": D, "axes": a, "to_axes": b, "vectors": vectors, "to_grid": other, "det": det}
        # grids whose stored size is fractional (pyramid level of an odd-sized grid): the number of samples N is the
        # rounded-up size in every map
        for a in AX:
            for b in AX:
                if a != b:
                    for vectors in (False, True):
                        yield {"D": 2, "axes": a, "to_axes": b, "vectors": vectors, "to_grid": "none", "det": 1, "fractional": True}

    def run(self, case, K):
        from deepali.core.grid import Axes

        D = case["D"]
        if case.get("fractional"):
            g, gs = fractional_grid(K, "g", D)
        else:
            g, gs = make_grid(K, "g", D, det=case["det"])
        if case["to_grid"] == "other":
            h, hs = make_grid(K, "h", D, det=1, align_corners=False)
            outside_eq_band(K, gs, hs)
        elif case["to_grid"] == "same":
            h, hs = g, gs
        else:
            h, hs = None, gs
        res = K.call(g.transform, Axes(case["axes"]), Axes(case["to_axes"]), to_grid=h, vectors=case["vectors"])
        if not K.ensure_returns(res, text="Grid.transform succeeds for every valid grid pair and axes pair"):
            return
        A, t = SG.point_map(gs, case["axes"], hs, case["to_axes"])
        want = A if case["vectors"] else SG.hom(A, t)
        got = K.val(res) if case["vectors"] else as_affine(K, res)
        K.ensure_eq("matrix", got, want, text=Q1 + (" / vectors transform by exactly the linear part of the point map" if case["vectors"] else ""))
        # vacuity guard: the same clause against a spec that is off by half a sample must be refuted
        bad = want.copy()
        bad[0, -1] = E.add(bad[0, -1], Fraction(1, 2))
        K.ensure_eq("mustfail", got, bad, text="perturbed spec (half a sample)", must_fail=True)


Q_VEC = "C01: vectors transform by exactly the linear part of the point map"
Q_LAW = "C01: A->B followed by B->A is the identity, A->C equals A->B->C"
Q_COORDS = ("C01: the normalised sample coordinates a grid reports are these maps applied to its integer indices, there are "
            "exactly n of them per axis inside [-1, 1]")
Q_IDENT = "C01: sampling an image at them with the matching align_corners flag returns the image unchanged"

VSHAPES = {"vec": lambda D: (D,), "2D": lambda D: (2, D), "23D": lambda D: (2, 3, D)}


def apply_spec(A, t, pts, vectors):
    """pts: object array (..., D) -> A p (+ t)"""
    D = A.shape[0]
    flat = pts.reshape(-1, D)
    out = np.empty(flat.shape, dtype=object)
    for m in range(flat.shape[0]):
        y = SG.matvec(A, list(flat[m]))
        for i in range(D):
            out[m, i] = y[i] if vectors else E.add(y[i], t[i])
    return out.reshape(pts.shape)


def second_grid(K, case, g, gs):
    if case["to_grid"] == "other":
        h, hs = make_grid(K, "h", case["D"], det=1, align_corners=False)
        outside_eq_band(K, gs, hs)
        return h, hs
    if case["to_grid"] == "same":
        return g, gs
    return None, gs


def fractional_grid(K, name, D):
    """an oriented grid with symbolic geometry whose stored size is fractional: the first pyramid level of a 7 x 5 (x 7)
    grid, i.e. raw size 3.5 x 2.5 (x 3.5) and 4 x 3 (x 4) samples; returns (grid, GridSpec with N = number of samples)"""
    from contracts.c03_derived import spec_of

    sizes = (7, 5) if D == 2 else (7, 5, 7)
    g0, _ = make_grid(K, name, D, sizes=sizes)
    g = g0.downsample()
    return g, spec_of(K, g, N=[E.const(-(-n // 2)) for n in sizes])


@register
class GridTransformVectors:
    """Grid.transform_vectors has its own closed-form scale/affine path; it must equal the linear part of the point map."""

    target = "deepali.core.grid:Grid.transform_vectors"
    properties = ("C01", "C10", "C02")

    def cases(self, tier):
        for D in (2, 3):
            for a in AX:
                for b in AX:
                    for other in ("none", "other"):
                        for shp in (("vec", "23D") if tier == "thorough" else ("2D",)):
                            yield {"D": D, "axes": a, "to_axes": b, "to_grid": other, "shape": shp, "det": 1}
        for a in AX:
            for b in AX:
                if a != b:
                    yield {"D": 2, "axes": a, "to_axes": b, "to_grid": "none", "shape": "2D", "det": 1, "fractional": True}

    def run(self, case, K):
        from deepali.core.grid import Axes

        D = case["D"]
        if case.get("fractional"):
            g, gs = fractional_grid(K, "g", D)
        else:
            g, gs = make_grid(K, "g", D, det=case["det"])
        h, hs = second_grid(K, case, g, gs)
        ev = K.reals("v", VSHAPES[case["shape"]](D))
        v = K.tensor(ev)
        res = K.call(g.transform_vectors, v, Axes(case["axes"]), Axes(case["to_axes"]), to_grid=h)
        if not K.ensure_returns(res, text="Grid.transform_vectors succeeds for every valid grid pair and axes pair"):
            return
        A, t = SG.point_map(gs, case["axes"], hs, case["to_axes"])
        K.ensure_eq("vectors", res, apply_spec(A, t, ev, True), text=Q_VEC)
        if case["axes"] == "world" and case["to_axes"] == "world":
            K.ensure("same-object", E.bconst(res is v), text="WORLD->WORLD returns its argument unchanged", kind="helper")
        bad = apply_spec(A, [E.add(x, Fraction(1, 2)) for x in t], ev, False)
        K.ensure_eq("mustfail", res, bad, text="vectors moved by a point offset", must_fail=True)


def unround(e):
    """If e == round(arg) * 10^-k structurally, return (arg, k) else None."""
    if e.op == "round":
        return e.args[0], 0
    if e.op == "mul" and len(e.args) == 2 and e.args[1].op == "const" and e.args[0].op == "round":
        c = e.args[1].args[0]
        k = 0
        while c < 1 and k < 40:
            c *= 10
            k += 1
        if c == 1:
            return e.args[0].args[0], k
    return None


@register
class GridApplyTransform:
    target = "deepali.core.grid:Grid.apply_transform"
    properties = ("C01",)

    def cases(self, tier):
        for D in (2, 3):
            for a in AX:
                for b in AX:
                    for other in ("none", "other"):
                        for vectors in (False, True):
                            for dec in ("none", "default"):
                                if dec == "default" and (vectors or other == "other") and tier == "quick":
                                    continue
                                yield {"D": D, "axes": a, "to_axes": b, "to_grid": other, "vectors": vectors,
                                       "decimals": dec, "shape": "2D" if tier == "quick" else "23D", "det": 1}

    def run(self, case, K):
        from deepali.core.grid import Axes

        D = case["D"]
        g, gs = make_grid(K, "g", D, det=case["det"])
        h, hs = second_grid(K, case, g, gs)
        ep = K.reals("p", VSHAPES[case["shape"]](D))
        p = K.tensor(ep)
        kw = {"decimals": None} if case["decimals"] == "none" else {}
        res = K.call(g.apply_transform, p, Axes(case["axes"]), Axes(case["to_axes"]), to_grid=h, vectors=case["vectors"], **kw)
        if not K.ensure_returns(res, text="Grid.apply_transform succeeds for every valid grid pair and axes pair"):
            return
        A, t = SG.point_map(gs, case["axes"], hs, case["to_axes"])
        want = apply_spec(A, t, ep, case["vectors"])
        if case["decimals"] == "none":
            K.ensure_eq("apply", res, want, text=Q1 + " (the map applied to the last axis of a point tensor)")
            return
        # default rounding: the result is the exact value rounded as the LAST step to >= 6 decimals
        got = K.val(res)
        if K.mode == "conc":
            K.ensure_eq("apply-rounded", got, want, text="default rounding keeps the mapped coordinates within 1/2 * 10^-6", tol=2e-5)
            return
        for idx in np.ndindex(*got.shape):
            e = got[idx]
            u = unround(e)
            if u is None:
                # not rounded at all (e.g. mapping to world): must be the exact value
                K.ensure_eq(f"apply{list(idx)}", e, want[idx], text="default decimals: unrounded results are the exact map")
                continue
            arg, k = u
            K.ensure(f"decimals{list(idx)}", E.bconst(k >= 6), text="C01 mechanism: default rounding of mapped coordinates (6/12 decimals) must not break inverses: at least 6 decimals")
            K.ensure_eq(f"last-step{list(idx)}", E.mul(arg, Fraction(1, 10 ** k)), want[idx],
                        text="rounding is the last step: the rounded quantity is the exact mapped coordinate, so the result is within 1/2 * 10^-decimals of it")


@register
class GridPointHelpers:
    """index_to_cube, cube_to_index, index_to_world, world_to_index, cube_to_world, world_to_cube and the module-level
    grid_transform_points / grid_transform_vectors / grid_points_transform / grid_vectors_transform wrappers."""

    target = "deepali.core.grid:Grid.transform_points"
    properties = ("C01",)
    HELPERS = {
        "index_to_cube": ("grid", "cube?"), "cube_to_index": ("cube?", "grid"), "index_to_world": ("grid", "world"),
        "world_to_index": ("world", "grid"), "cube_to_world": ("cube?", "world"), "world_to_cube": ("world", "cube?"),
    }

    def cases(self, tier):
        for D in (2, 3):
            for name, (a, b) in self.HELPERS.items():
                acs = (None, True, False) if "cube?" in (a, b) else (None,)
                for ac in acs:
                    for gac in (True, False):
                        yield {"D": D, "helper": name, "align_corners": ac, "grid_align_corners": gac}
            for fn in ("grid_transform_points", "grid_transform_vectors", "grid_points_transform", "grid_vectors_transform"):
                yield {"D": D, "helper": fn, "align_corners": None, "grid_align_corners": True}

    def run(self, case, K):
        from deepali.core import grid as G

        D = case["D"]
        g, gs = make_grid(K, "g", D, align_corners=case["grid_align_corners"])
        ep = K.reals("p", (2, D))
        p = K.tensor(ep)
        name = case["helper"]
        if name in self.HELPERS:
            a, b = self.HELPERS[name]
            ac = case["align_corners"] if case["align_corners"] is not None else case["grid_align_corners"]
            cube = "cube_corners" if ac else "cube"
            a = cube if a == "cube?" else a
            b = cube if b == "cube?" else b
            kw = {"decimals": None}
            if "cube" in name:
                kw["align_corners"] = case["align_corners"]
            res = K.call(getattr(g, name), p, **kw)
            if not K.ensure_returns(res):
                return
            A, t = SG.point_map(gs, a, gs, b)
            K.ensure_eq("helper", res, apply_spec(A, t, ep, False), text=Q1 + f" ({name}: cube axes follow the align_corners flag)")
            return
        h, hs = make_grid(K, "h", D, align_corners=False)
        outside_eq_band(K, gs, hs)
        A, t = SG.point_map(gs, "cube", hs, "grid")
        ax, tax = G.Axes.CUBE, G.Axes.GRID
        if name == "grid_transform_points":
            res = K.call(G.grid_transform_points, p, g, ax, h, tax, decimals=None)
            want = apply_spec(A, t, ep, False)
        elif name == "grid_transform_vectors":
            res = K.call(G.grid_transform_vectors, p, g, ax, h, tax)
            want = apply_spec(A, t, ep, True)
        elif name == "grid_points_transform":
            res = K.call(G.grid_points_transform, g, ax, h, tax)
            want = SG.hom(A, t)
        else:
            res = K.call(G.grid_vectors_transform, g, ax, h, tax)
            want = A
        if not K.ensure_returns(res):
            return
        K.ensure_eq("wrapper", res, want, text=Q1 + f" ({name})")


@register
class GridLaws:
    """The laws of the statement, run end-to-end through the real code (they also follow from the per-call contracts)."""

    target = "deepali.core.grid:Grid.transform"
    properties = ("C01", "C05")

    def cases(self, tier):
        for D in (2, 3):
            for a in AX:
                for b in AX:
                    for c in AX:
                        for two in (False, True):
                            if tier == "quick" and D == 3 and two:
                                continue  # 3-D two-grid law harness: thorough tier (the per-call contracts cover it)
                            yield {"D": D, "a": a, "b": b, "c": c, "two_grids": two}

    def run(self, case, K):
        from deepali.core.grid import Axes
        from deepali.core.linalg import hmm

        D = case["D"]
        g, gs = make_grid(K, "g", D)
        if case["two_grids"]:
            h, hs = make_grid(K, "h", D, align_corners=False)
            outside_eq_band(K, gs, hs)
        else:
            h, hs = g, gs
        a, b, c = Axes(case["a"]), Axes(case["b"]), Axes(case["c"])
        # a on g  ->  b on h  ->  c on g
        m_ab = K.call(g.transform, a, b, to_grid=h)
        m_bc = K.call(h.transform, b, c, to_grid=g)
        m_ac = K.call(g.transform, a, c)
        m_ba = K.call(h.transform, b, a, to_grid=g)
        for m in (m_ab, m_bc, m_ac, m_ba):
            if not K.ensure_returns(m):
                return
        comp = K.call(hmm, m_bc, m_ab)
        back = K.call(hmm, m_ba, m_ab)
        K.ensure_eq("a->c == a->b->c", as_affine(K, comp), as_affine(K, m_ac), text=Q_LAW)
        K.ensure_eq("b->a o a->b == id", as_affine(K, back), SG.hom(SG.eye(D), [E.ZERO] * D), text=Q_LAW)
        va = K.call(g.transform, a, b, to_grid=h, vectors=True)
        if K.ensure_returns(va):
            K.ensure_eq("vectors == linear part", K.val(va), as_affine(K, m_ab)[:, :D], text=Q_VEC)


def index_points(shape):
    """integer index tuples (x, y[, z]) of a grid with tensor shape (.., Y, X), as object array shape + (D,)"""
    D = len(shape)
    out = np.empty(tuple(shape) + (D,), dtype=object)
    for idx in np.ndindex(*shape):
        for d in range(D):
            out[idx + (d,)] = E.const(idx[D - 1 - d])
    return out


@register
class GridCoords:
    """Grid.coords / Grid.points for concrete sizes (the size is a shape here), symbolic geometry."""

    target = "deepali.core.grid:Grid.coords"
    properties = ("C01",)
    SIZES = {2: [(3, 4), (1, 5), (2, 2)], 3: [(2, 3, 4), (3, 1, 2)]}

    def cases(self, tier):
        for D in (2, 3):
            for size in self.SIZES[D]:
                for normalize in (True, False):
                    for ac in (True, False):
                        for center in ((False, True) if not normalize else (False,)):
                            for flip in (False, True):
                                for cl in (True, False):
                                    if tier == "quick" and (flip or not cl) and size != self.SIZES[D][0]:
                                        continue
                                    yield {"D": D, "size": list(size), "normalize": normalize, "align_corners": ac,
                                           "center": center, "flip": flip, "channels_last": cl, "fn": "coords"}
                for axes in AX:
                    if axes == "cube_corners" and 1 in size:
                        continue  # cube-corner coordinates need two anchors (n >= 2)
                    yield {"D": D, "size": list(size), "fn": "points", "axes": axes}

    def run(self, case, K):
        from deepali.core.grid import Axes

        D = case["D"]
        size = case["size"]
        g, gs = make_grid(K, "g", D, sizes=size, align_corners=True)
        shape = tuple(size[::-1])
        idx = index_points(shape)
        if case["fn"] == "points":
            res = K.call(g.points, Axes(case["axes"]))
            if not K.ensure_returns(res):
                return
            A, t = SG.point_map(gs, "grid", gs, case["axes"])
            want = apply_spec(A, t, idx, False)
            if case["axes"] in ("cube", "cube_corners", "grid") and K.mode == "sym":
                got = K.val(res)
                # default rounding may be applied (helper): compare the rounded quantity
                # default rounding (>= 6 decimals, last step) is applied to these coordinates: within 1/2 * 10^-6
                half = Fraction(1, 2 * 10 ** 6)
                for i in np.ndindex(*got.shape):
                    u = unround(got[i])
                    if u:
                        K.ensure_eq(f"points{list(i)}", E.mul(u[0], Fraction(1, 10 ** u[1])), want[i], text=Q_COORDS + " (Grid.points)")
                    else:
                        d = E.sub(got[i], want[i])
                        K.ensure(f"points{list(i)}", E.and_(E.le(d, half), E.le(E.neg(d), half)), text=Q_COORDS + " (Grid.points, within default rounding)")
            else:
                K.ensure_eq("points", res, want, text=Q_COORDS + " (Grid.points)", tol=2e-5)
            return
        res = K.call(g.coords, center=case["center"], normalize=case["normalize"], align_corners=case["align_corners"],
                     channels_last=case["channels_last"], flip=case["flip"])
        if not K.ensure_returns(res):
            return
        got = K.val(res)
        if not case["channels_last"]:
            got = np.moveaxis(got, 0, -1)
        if case["flip"]:
            got = got[..., ::-1]
        K.ensure("count", E.bconst(tuple(got.shape) == shape + (D,)), text=Q_COORDS + " (exactly n per axis)")
        if tuple(got.shape) != shape + (D,):
            return
        if case["normalize"]:
            # an axis with a single sample has no cube-corner map (first == last sample); the statement's anchors
            # put that sample at the centre, coordinate 0 - compute the other axes with a stand-in size
            gs1 = SG.GridSpec([n if s > 1 else E.const(2) for n, s in zip(gs.N, size)], gs.s, gs.c, gs.R)
            A, t = SG.point_map(gs1, "grid", gs1, "cube_corners" if case["align_corners"] else "cube")
            want = apply_spec(A, t, idx, False)
            # a single sample sits at the centre of the cube
            for d in range(D):
                if size[d] == 1:
                    want[..., d] = E.ZERO
        elif case["center"]:
            want = idx.copy()
            for d in range(D):
                for i in np.ndindex(*shape):
                    want[i + (d,)] = E.sub(idx[i + (d,)], Fraction(size[d] - 1, 2))
        else:
            want = idx
        K.ensure_eq("coords", got, want, text=Q_COORDS, tol=1e-5)
        if case["normalize"]:
            for e in got.ravel():
                K.ensure("range", lambda s, e=e: E.and_(E.le(E.const(-1) - s, e), E.le(e, E.const(1) + s)), text=Q_COORDS + " (inside [-1, 1])", slack=1e-6)


@register
class GridCoordsLattice:
    """Bounded (exhaustive over the stated finite range): per-axis lattice for every n in [1, 4096], both conventions,
    float32 and float64 - exactly n entries, all inside [-1, 1], equal to the affine lattice."""

    target = "deepali.core.grid:Grid.coords"
    properties = ("C01",)
    symbolic = False
    n_bounded = 1

    def cases(self, tier):
        top = 4096
        step = 512
        for lo in range(1, top + 1, step):
            for ac in (True, False):
                yield {"n_from": lo, "n_to": min(lo + step - 1, top), "align_corners": ac}

    def run(self, case, K):
        from deepali.core.grid import Grid

        ac = case["align_corners"]
        for n in range(case["n_from"], case["n_to"] + 1):
            for dt in (torch.float32, torch.float64):
                g = Grid(size=(n, 2))
                c = g.coords(dim=0, align_corners=ac, dtype=dt).reshape(-1)
                K.checked += 3
                if c.numel() != n:
                    K.failures.append({"clause": Q_COORDS + " (exactly n per axis)", "kind": "property", "n": n, "got": int(c.numel()), "dtype": str(dt), "align_corners": ac})
                    continue
                if n == 1:
                    want = torch.zeros(1, dtype=torch.float64)
                elif ac:
                    want = -1 + 2 * torch.arange(n, dtype=torch.float64) / (n - 1)
                else:
                    want = -1 + (2 * torch.arange(n, dtype=torch.float64) + 1) / n
                err = (c.double() - want).abs().max().item()
                eps = 1.2e-7 if dt == torch.float32 else 2.3e-16
                if err > 2 * eps * n + eps:
                    K.failures.append({"clause": Q_COORDS + " (lattice values)", "kind": "property", "n": n, "err": err, "dtype": str(dt), "align_corners": ac})
                if c.min().item() < -1 - 2 * eps or c.max().item() > 1 + 2 * eps * n:
                    K.failures.append({"clause": Q_COORDS + " (inside [-1, 1])", "kind": "property", "n": n, "dtype": str(dt), "align_corners": ac, "max": c.max().item()})


@register
class GridIdentitySampling:
    """grid_sample(image, grid.coords(align_corners=a), align_corners=a) == image, for all image contents."""

    target = "deepali.core.grid:Grid.coords"
    properties = ("C01",)
    SHAPES = {2: [(3, 4)], 3: [(2, 3, 2)]}

    def cases(self, tier):
        for D in (2, 3):
            for shape in self.SHAPES[D] + ([(5, 2)] if D == 2 and tier == "thorough" else []):
                for ac in (True, False):
                    for mode in ("bilinear", "nearest"):
                        yield {"D": D, "shape": list(shape), "align_corners": ac, "mode": mode}

    def run(self, case, K):
        import torch.nn.functional as F

        from deepali.core.grid import Grid

        shape = tuple(case["shape"])
        g = Grid(shape=shape, align_corners=case["align_corners"])
        eimg = K.reals("im", (1, 2) + shape)
        img = K.tensor(eimg)
        coords = K.call(g.coords, align_corners=case["align_corners"])
        if not K.ensure_returns(coords):
            return
        out = K.call(F.grid_sample, img, coords.unsqueeze(0), mode=case["mode"], align_corners=case["align_corners"], padding_mode="zeros")
        if not K.ensure_returns(out):
            return
        K.ensure_eq("identity", out, eimg, text=Q_IDENT, tol=1e-5)


@register
class CubeTransform:
    """Cube.transform between cube and world (and between two cubes); Grid.cube() is the grid's +-1 box."""

    target = "deepali.core.cube:Cube.transform"
    properties = ("C01",)

    def cases(self, tier):
        for D in (2, 3):
            for a, b in (("cube", "world"), ("world", "cube"), ("cube", "cube"), ("cube_corners", "world"), ("world", "world")):
                for vectors in (False, True):
                    for other in ((False, True) if a == b == "cube" else (False,)):
                        for ac in (True, False):
                            yield {"D": D, "axes": a, "to_axes": b, "vectors": vectors, "other": other, "grid_align_corners": ac}
        # the other constructor: Cube.from_grid(grid, align_corners) - the flag given overrides the grid's own
        for D in (2, 3):
            for a, b in (("cube", "world"), ("world", "cube")):
                for ac in (True, False):
                    for flag in (None, True, False):
                        yield {"D": D, "axes": a, "to_axes": b, "vectors": False, "other": False, "grid_align_corners": ac, "from_grid": str(flag)}

    def run(self, case, K):
        from deepali.core.grid import Axes

        D = case["D"]
        ac = case["grid_align_corners"]
        g, gs = make_grid(K, "g", D, align_corners=ac)
        if "from_grid" in case:
            from deepali.core.cube import Cube

            flag = {"None": None, "True": True, "False": False}[case["from_grid"]]
            cube = K.call(Cube.from_grid, g, align_corners=flag)
            eff = ac if flag is None else flag
        else:
            cube = K.call(g.cube)
            eff = ac
        if not K.ensure_returns(cube, text="Grid.cube() succeeds"):
            return
        cax = "cube_corners" if eff else "cube"  # the cube of a grid is its +-1 box for its own (or the requested) align_corners
        if case["other"]:
            h, hs = make_grid(K, "h", D, align_corners=not ac)
            outside_cube_band(K, gs, ac, hs, not ac)
            cube2 = K.call(h.cube)
            hax = "cube" if ac else "cube_corners"
        else:
            cube2, hs, hax = None, gs, cax
        res = K.call(cube.transform, Axes(case["axes"]), Axes(case["to_axes"]), to_cube=cube2, vectors=case["vectors"])
        if not K.ensure_returns(res, text="Cube.transform succeeds for cube/world axes"):
            return
        a = cax if case["axes"] != "world" else "world"
        b = hax if case["to_axes"] != "world" else "world"
        A, t = SG.point_map(gs, a, hs, b)
        got = K.val(res) if case["vectors"] else as_affine(K, res)
        K.ensure_eq("cube-map", got, A if case["vectors"] else SG.hom(A, t),
                    text="C01: cube <-> world maps of the domain object agree with the grid's own normalised-cube maps (the cube of a grid is its -1/+1 box)")
