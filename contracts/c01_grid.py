"""C01 - contracts on the coordinate maps of deepali.core.grid.Grid (and Cube)."""
from __future__ import annotations

from fractions import Fraction

import numpy as np
import torch

from contracts.common import Q1, as_affine, make_grid, outside_eq_band
from spec import grid as SG
from vc import expr as E
from vc.contract import register

AX = SG.AXES


@register
class GridTransform:
    """Grid.transform(axes, to_axes, to_grid, vectors) == the affine interpolant of the documented anchors,
    composed through world for two grids; vectors get exactly its linear part."""

    target = "deepali.core.grid:Grid.transform"
    properties = ("C01",)

    def cases(self, tier):
        for D in (2, 3):
            for a in AX:
                for b in AX:
                    for vectors in (False, True):
                        for other in ("none", "same", "other"):
                            for det in ((1, -1) if tier == "thorough" else (1,)):
                                yield {"D": D, "axes": a, "to_axes": b, "vectors": vectors, "to_grid": other, "det": det}

    def run(self, case, K):
        from deepali.core.grid import Axes

        D = case["D"]
        g, gs = make_grid(K, "g", D, det=case["det"])
        if case["to_grid"] == "other":
            h, hs = make_grid(K, "h", D, det=1, align_corners=False)
            outside_eq_band(K, gs, hs)
        elif case["to_grid"] == "same":
            h, hs = g, gs
        else:
            h, hs = None, gs
        res = K.call(g.transform, Axes(case["axes"]), Axes(case["to_axes"]), to_grid=h, vectors=case["vectors"])
        if not K.ensure_returns(res, text="Grid.transform succeeds for every valid grid pair and axes pair"):
            return
        A, t = SG.point_map(gs, case["axes"], hs, case["to_axes"])
        want = A if case["vectors"] else SG.hom(A, t)
        got = K.val(res) if case["vectors"] else as_affine(K, res)
        K.ensure_eq("matrix", got, want, text=Q1 + (" / vectors transform by exactly the linear part of the point map" if case["vectors"] else ""))
        # vacuity guard: the same clause against a spec that is off by half a sample must be refuted
        bad = want.copy()
        bad[0, -1] = E.add(bad[0, -1], Fraction(1, 2))
        K.ensure_eq("mustfail", got, bad, text="perturbed spec (half a sample)", must_fail=True)
