"""C10 - flow fields mean the same displacement in every vector representation (deepali.data.flow)."""
from __future__ import annotations

import itertools
from fractions import Fraction

import numpy as np
import torch

from contracts.c01_grid import AX, apply_spec
from contracts.c11_c13_flow import affine_disp, hull, invariant_map, lattice
from contracts.common import make_grid, outside_eq_band
from spec import grid as SG
from vc import expr as E
from vc.contract import Raised, register

Q10A = ("C10: converting between these representations is invertible, path-independent and equal to the grid's own vector map")
Q10O = ("C10: every flow operation - warping an image, resampling the field on another grid, the exponential map - produces the same "
        "world-space result regardless of the representation (and align_corners convention) the input was given in")

SHAPE = (3, 4)      # tensor shape (Y, X) of the flow's grid
SIZE = (4, 3)


def vec_map(gs, a, b):
    A, _ = SG.point_map(gs, a, gs, b)
    return A


def convert(vals, A):
    """apply the D x D matrix A to the channel axis of (N, D, *shape) values (one grid)"""
    N, D = vals.shape[:2]
    out = np.empty(vals.shape, dtype=object)
    for n in range(N):
        for idx in np.ndindex(*vals.shape[2:]):
            v = [vals[(n, j) + idx] for j in range(D)]
            y = SG.matvec(A, v)
            for i in range(D):
                out[(n, i) + idx] = y[i]
    return out


@register
class FlowAxesConversion:
    target = "deepali.data.flow:FlowFields.axes"
    properties = ("C10",)

    def cases(self, tier):
        for a in AX:
            for b in AX:
                for grids in ("shared", "per-item"):
                    for cls in ("FlowFields", "FlowField"):
                        if cls == "FlowField" and grids == "per-item":
                            continue
                        yield {"axes": a, "to_axes": b, "grids": grids, "cls": cls}
                # a grid whose stored size is fractional (a pyramid level of an odd-sized grid: 7 x 5 -> 3.5 x 2.5, i.e. 4 x 3
                # samples): the number of samples is the rounded-up size everywhere
                if a != b:
                    yield {"axes": a, "to_axes": b, "grids": "fractional-size", "cls": "FlowField"}
        # fields built without an explicit representation: the normalised-cube convention of their grid's align_corners flag
        for cls in ("FlowFields", "FlowField"):
            for ac in (True, False):
                for b in ("world", "grid"):
                    yield {"axes": "default", "to_axes": b, "grids": "shared", "cls": cls, "align_corners": ac}

    def run(self, case, K):
        from deepali.core.grid import Axes
        from deepali.data import FlowField, FlowFields

        D = 2
        a, b = case["axes"], case["to_axes"]
        if case["grids"] == "fractional-size":
            from contracts.c03_derived import spec_of

            g0, _ = make_grid(K, "g", D, sizes=(7, 5))
            g1 = g0.downsample()
            gs1 = spec_of(K, g1, N=[E.const(n) for n in SIZE])
        elif a == "default":
            g1, gs1 = make_grid(K, "g", D, sizes=SIZE, align_corners=case["align_corners"])
        else:
            g1, gs1 = make_grid(K, "g", D, sizes=SIZE)
        if case["grids"] == "per-item":
            g2, gs2 = make_grid(K, "h", D, sizes=SIZE, align_corners=False)
            outside_eq_band(K, gs1, gs2)
        else:
            g2, gs2 = g1, gs1
        N = 2 if case["cls"] == "FlowFields" else 1
        ev = K.reals("v", (N, D) + SHAPE)
        if a == "default":
            f = FlowFields(K.tensor(ev), [g1, g2]) if case["cls"] == "FlowFields" else FlowField(K.tensor(ev[0]), g1)
            a = "cube_corners" if case["align_corners"] else "cube"
            K.ensure("default-axes", E.bconst(f.axes() == Axes(a)), text=Q10A + " [a field built without axes is in the cube convention of its grid's align_corners flag]")
        elif case["cls"] == "FlowFields":
            f = FlowFields(K.tensor(ev), [g1, g2], Axes(a))
        else:
            f = FlowField(K.tensor(ev[0]), g1, Axes(a))
        r = K.call(f.axes, Axes(b))
        if not K.ensure_returns(r):
            return
        specs = [gs1, gs2][:N]
        want = np.concatenate([convert(ev[n : n + 1], vec_map(specs[n], a, b)) for n in range(N)], axis=0)
        got = K.val(r.tensor() if hasattr(r, "tensor") else r)
        K.ensure_eq("converted", got.reshape(want.shape), want, text=Q10A + " [per batch item with that item's own grid]")
        K.ensure("axes-tag", E.bconst(r.axes() == Axes(b)), text="the result is tagged with the new representation", kind="helper")
        back = K.call(r.axes, Axes(a))
        if K.ensure_returns(back):
            K.ensure_eq("round-trip", K.val(back.tensor()).reshape(ev.shape), ev, text=Q10A + " [invertible]")
        if a != b and N == 2 and case["grids"] == "per-item" and "world" in (a, b):  # (same sizes: only world maps differ)
            bad = np.concatenate([convert(ev[n : n + 1], vec_map(gs1, a, b)) for n in range(N)], axis=0)
            K.ensure_eq("mustfail", got.reshape(want.shape), bad, text="grid of the first item used for all items", must_fail=True)


def canonical_field(K, D, shape):
    """field of a hull-invariant affine map in cube-corner coordinates (a world-affine displacement field)"""
    P, t = invariant_map(K, "m", D, hull(shape, True))
    return affine_disp(P, t, shape, True), (P, t)


@register
class FlowExpRepresentation:
    target = "deepali.data.flow:FlowFields.exp"
    properties = ("C10", "C11")
    tol = 2e-4

    def cases(self, tier):
        for a in AX:
            yield {"axes": a}

    def run(self, case, K):
        from deepali.core.flow import expv
        from deepali.core.grid import Axes
        from deepali.data import FlowFields

        D = 2
        a = case["axes"]
        g, gs = make_grid(K, "g", D, sizes=SIZE)
        cc, _ = canonical_field(K, D, SHAPE)
        ref = K.call(expv, K.tensor(cc), scale=2.0, steps=1, align_corners=True)
        if not K.ensure_returns(ref):
            return
        data = K.simplify(convert(cc, vec_map(gs, "cube_corners", a)))
        f = FlowFields(K.tensor(data), g, Axes(a))
        r = K.call(f.exp, scale=2.0, steps=1)
        if not K.ensure_returns(r):
            return
        got_cc = convert(K.val(r.tensor()), vec_map(gs, a, "cube_corners"))
        K.ensure_eq("exp", got_cc, K.val(ref), text=Q10O + " [exponential map]")
        K.ensure("axes-tag", E.bconst(r.axes() == Axes(a)), text="the result returns to the representation of the input", kind="helper")


@register
class FlowSampleRepresentation:
    target = "deepali.data.flow:FlowFields.sample"
    properties = ("C10",)
    tol = 2e-4

    def cases(self, tier):
        for a in AX:
            yield {"axes": a}

    def run(self, case, K):
        from deepali.core.grid import Axes
        from deepali.data import FlowFields

        D = 2
        a = case["axes"]
        g, gs = make_grid(K, "g", D, sizes=SIZE)
        cc, (P, t) = canonical_field(K, D, SHAPE)
        data = K.simplify(convert(cc, vec_map(gs, "cube_corners", a)))
        f = FlowFields(K.tensor(data), g, Axes(a))
        h = g.resize((7, 5))  # same domain, finer: every new sample lies inside the hull of the old ones
        hs = SG.GridSpec([E.const(7), E.const(5)], [E.div(E.mul(gs.s[0], 3), 6), E.div(E.mul(gs.s[1], 2), 4)], gs.c, gs.R, True)
        r = K.call(f.sample, h)
        if not K.ensure_returns(r):
            return
        # the same world-affine field sampled on the new grid, in cube-corner units of the new grid == of the old (same cube)
        want_cc = affine_disp(P, t, (5, 7), True)
        got_cc = convert(K.val(r.tensor()), vec_map(hs, a, "cube_corners"))
        # the resampling path rounds sample coordinates to 12 decimals, so the symbolic values differ from the exact ones by
        # ~1e-12: the value clause is evaluated numerically (bounded); the symbolic run proves success, frame and shape
        K.ensure("shape", E.bconst(tuple(r.shape) == (1, 2, 5, 7)), text="the field is resampled on the new grid", kind="helper")
        if True:
            K.ensure_close("resampled", got_cc, want_cc, text=Q10O + " [resampling the field on another grid: data resampled and vectors re-expressed in the new grid's axes]")


@register
class FlowSampleBatch:
    """A batch of two flow fields on *different* grids, each a constant world displacement d_k written in the batch's
    representation, resampled onto per-item target grids (each a refinement of the item's own grid): every item of the
    result still means d_k in world units - the vectors of item k are re-expressed with item k's source and target grid."""

    target = "deepali.data.flow:FlowFields.sample"
    properties = ("C10", "C04")
    tol = 2e-4

    def cases(self, tier):
        for a in AX:
            for targets in ("per-item", "shared"):
                yield {"axes": a, "targets": targets}

    def run(self, case, K):
        from deepali.core.grid import Axes
        from deepali.data import FlowFields

        D = 2
        a = case["axes"]
        g0, s0 = make_grid(K, "g", D, sizes=SIZE)
        g1, s1 = make_grid(K, "h", D, sizes=SIZE)
        d = K.reals("d", (2, D), lo=Fraction(-1, 4), hi=Fraction(1, 4))
        vals = np.empty((2, D) + SHAPE, dtype=object)
        for k, gs in enumerate((s0, s1)):
            A = vec_map(gs, "world", a)
            v = SG.matvec(A, list(d[k]))
            for idx in np.ndindex(*SHAPE):
                for i in range(D):
                    vals[(k, i) + idx] = v[i]
        f = FlowFields(K.tensor(K.simplify(vals)), [g0, g1], Axes(a))
        if case["targets"] == "per-item":
            t0, t1 = g0.resize((7, 5)), g1.resize((7, 5))
            ts0 = SG.GridSpec([E.const(7), E.const(5)], [E.div(E.mul(s0.s[0], 3), 6), E.div(E.mul(s0.s[1], 2), 4)], s0.c, s0.R, True)
            ts1 = SG.GridSpec([E.const(7), E.const(5)], [E.div(E.mul(s1.s[0], 3), 6), E.div(E.mul(s1.s[1], 2), 4)], s1.c, s1.R, True)
            r = K.call(f.sample, [t0, t1])
            specs = (ts0, ts1)
            oshape = (5, 7)
        else:
            # one target grid for both items: the grid of item 0 itself refined; item 1 is padded outside its domain, so
            # only its vector units are constrained at samples inside - here: the shape / grids / item 0
            t0 = g0.resize((7, 5))
            ts0 = SG.GridSpec([E.const(7), E.const(5)], [E.div(E.mul(s0.s[0], 3), 6), E.div(E.mul(s0.s[1], 2), 4)], s0.c, s0.R, True)
            r = K.call(f.sample, t0)
            specs = (ts0,)
            oshape = (5, 7)
        if not K.ensure_returns(r):
            return
        K.ensure("type-and-grids", E.bconst(isinstance(r, FlowFields) and len(r.grids()) == 2 and tuple(r.shape) == (2, D) + oshape and r.axes() == Axes(a)),
                 text=Q10O + " [the result is a batch of two fields, one grid each, in the same representation]")
        got = K.val(r.tensor())
        for k, ts in enumerate(specs):
            back = convert(got[k:k + 1], vec_map(ts, a, "world"))
            want = np.empty((1, D) + oshape, dtype=object)
            for idx in np.ndindex(*oshape):
                for i in range(D):
                    want[(0, i) + idx] = d[k][i]
            K.ensure_close(f"world-displacement[{k}]", back, want, text=Q10O + f" [item {k}: resampling on another grid re-expresses the vectors with that item's own grids]")


@register
class FlowWarpRepresentation:
    target = "deepali.data.flow:FlowFields.warp_image"
    properties = ("C10",)
    tol = 2e-4

    def cases(self, tier):
        for a in AX:
            yield {"axes": a}

    def run(self, case, K):
        from deepali.core.grid import Axes
        from deepali.data import FlowFields, Image

        D = 2
        a = case["axes"]
        g, gs = make_grid(K, "g", D, sizes=SIZE)
        cc, (P, t) = canonical_field(K, D, SHAPE)
        data = K.simplify(convert(cc, vec_map(gs, "cube_corners", a)))
        f = FlowFields(K.tensor(data), g, Axes(a))
        # image whose intensity is affine in the index (a linear ramp)
        b0, bx, by = K.real("b0"), K.real("bx"), K.real("by")
        eim = np.empty((1,) + SHAPE, dtype=object)
        for idx in np.ndindex(*SHAPE):
            eim[(0,) + idx] = E.add(b0, E.mul(bx, idx[1]), E.mul(by, idx[0]))
        im = Image(K.tensor(eim), g)
        r = K.call(f.warp_image, im)
        if not K.ensure_returns(r):
            return
        # output sample j shows the image at T(x_j): index coordinates of P x + t
        x = lattice(SHAPE, True)
        y = apply_spec(P, t, x, False)
        want = np.empty((1, 1) + SHAPE, dtype=object)
        for idx in np.ndindex(*SHAPE):
            ix = E.mul(E.add(y[idx + (0,)], 1), Fraction(SHAPE[1] - 1, 2))
            iy = E.mul(E.add(y[idx + (1,)], 1), Fraction(SHAPE[0] - 1, 2))
            want[(0, 0) + idx] = E.add(b0, E.mul(bx, ix), E.mul(by, iy))
        K.ensure_eq("warped", K.val(r.tensor()), want, text=Q10O + " [warping an image]")
