"""C19 - batches keep one correctly aligned grid per image under tensor operations (data.image / data.flow / data.tensor).

The quantifier is over *programs* of torch operations: this is an enumerated catalogue (bounded in programs).  Per program the
check is unbounded in the data: every voxel of batch item k is the symbolic variable ``v{k}[...]``, so the provenance of each
entry of a result is read off the free variables of its payload, for all voxel values at once.
"""
from __future__ import annotations

import copy
import itertools
import pickle
import re
from fractions import Fraction

import numpy as np
import torch

from vc import expr as E
from vc.contract import Raised, register

Q19 = ("C19: whenever a tensor operation on an image batch yields one of those types again, the result carries one grid per batch entry "
       "whose shape equals the data's spatial shape, and entry i carries the grid (and vector representation) of the input item whose "
       "data it holds; a result whose batch size or spatial shape no longer matches the grids it could inherit is returned as a plain "
       "tensor rather than as a mis-described image")
Q19C = "C19: copying, deep-copying and pickling preserve type, data, grids and vector representation"

NB = 3
SHAPE = (3, 4)


def catalogue():
    """name -> function(batch) ; programs of one torch operation on an ImageBatch / FlowFields"""
    ops = {
        "add-scalar": lambda b: b + 1,
        "mul-scalar": lambda b: b * 2,
        "neg": lambda b: -b,
        "abs": lambda b: b.abs(),
        "add-self": lambda b: b + b,
        "clone": lambda b: b.clone(),
        "float": lambda b: b.float(),
        "double": lambda b: b.double(),
        "contiguous": lambda b: b.contiguous(),
        "index-int": lambda b: b[1],
        "index-slice": lambda b: b[1:],
        "index-slice-step": lambda b: b[::2],
        "index-list": lambda b: b[[2, 0]],
        "index-tensor": lambda b: b[torch.tensor([2, 1])],
        "index-ellipsis": lambda b: b[...],
        "index-neg": lambda b: b[-1],
        "narrow-batch": lambda b: torch.narrow(b, 0, 1, 2),
        "narrow-spatial": lambda b: torch.narrow(b, 3, 1, 2),
        "select-batch": lambda b: torch.select(b, 0, 2),
        "index_select": lambda b: torch.index_select(b, 0, torch.tensor([2, 0])),
        "flip-batch": lambda b: torch.flip(b, (0,)),
        "flip-spatial": lambda b: torch.flip(b, (3,)),
        "roll-batch": lambda b: torch.roll(b, 1, 0),
        "flip-method": lambda b: b.flip(0),
        "flip-method-dims": lambda b: b.flip([0, 3]),
        "flip-kw": lambda b: torch.flip(b, dims=[-4]),
        "roll-method": lambda b: b.roll(2, 0),
        "roll-tuple": lambda b: torch.roll(b, (1, 1), (0, 3)),
        "roll-kw": lambda b: torch.roll(b, shifts=-1, dims=0),
        "roll-spatial": lambda b: torch.roll(b, 1, 3),
        "roll-wrap": lambda b: torch.roll(b, 4, 0),            # more than one full turn (batch of 3)
        "roll-wrap-neg": lambda b: b.roll(-5, 0),
        "roll-wrap-tuple": lambda b: torch.roll(b, (7, 1), (0, 3)),
        "roll-full-turn": lambda b: torch.roll(b, 3, 0),
        "index_select-perm": lambda b: torch.index_select(b, 0, torch.tensor([2, 0, 1])),
        "index_select-method": lambda b: b.index_select(0, torch.tensor([1, 2, 0])),
        "index_select-kw": lambda b: torch.index_select(b, dim=0, index=torch.tensor([1, 0, 2])),
        "index_select-spatial": lambda b: torch.index_select(b, 3, torch.tensor([3, 2, 1, 0])),
        "cat-dim0": lambda b: torch.cat([b[1:], b[:1]], dim=0),
        "cat-kw": lambda b: torch.cat([b[2:], b[:2]], 0),
        "cat-channels": lambda b: torch.cat([b, b], dim=1),
        "stack": lambda b: torch.stack([b[0], b[2]], dim=0),
        "split-int": lambda b: torch.split(b, 2, dim=0),
        "split-list": lambda b: torch.split(b, [1, 2], dim=0),
        "split-method": lambda b: b.split(1),
        "chunk": lambda b: torch.chunk(b, 3, dim=0),
        "unbind": lambda b: torch.unbind(b, 0),
        "tensor_split-int": lambda b: torch.tensor_split(b, 3, dim=0),
        "tensor_split-idx": lambda b: torch.tensor_split(b, [1], dim=0),
        "iter": lambda b: list(iter(b)),
        "sum-batch": lambda b: b.sum(0),
        "sum-batch-keep": lambda b: b.sum(0, keepdim=True),
        "mean-channels-keep": lambda b: b.mean(1, keepdim=True),
        "sum-spatial": lambda b: b.sum(dim=(2, 3)),
        "sum-x-keep": lambda b: b.sum(3, keepdim=True),
        "amax-batch": lambda b: b.amax(0),
        "permute-swap-batch-channel": lambda b: b.permute(1, 0, 2, 3),
        "transpose-spatial": lambda b: b.transpose(2, 3),
        "transpose-batch": lambda b: b.transpose(0, 1),
        "expand": lambda b: b[:1].expand(2, -1, -1, -1),
        "repeat-batch": lambda b: b.repeat(2, 1, 1, 1),
        "reshape-same": lambda b: b.reshape(b.shape),
        "reshape-flat": lambda b: b.reshape(b.shape[0], -1),
        "flatten": lambda b: b.flatten(2),
        "unsqueeze": lambda b: b.unsqueeze(0),
        "squeeze-channels": lambda b: b.squeeze(1),
        "interpolate": lambda b: torch.nn.functional.interpolate(b, scale_factor=2),
        "avg_pool": lambda b: torch.nn.functional.avg_pool2d(b, 2),
        "pad": lambda b: torch.nn.functional.pad(b, (1, 1, 0, 0)),
        "where": lambda b: torch.where(b > 0, b, b * 0),
        "masked": lambda b: b * (b > -100),
        "detach": lambda b: b.detach(),
        "to-dtype": lambda b: b.to(torch.float64),
        "type": lambda b: b.type(torch.float32),
    }
    return ops


def provenance(K, payload_item, nb=NB):
    """set of batch items whose voxel variables occur in the payload of one result entry"""
    items = set()
    for e in np.asarray(payload_item, dtype=object).ravel():
        for name in E.free_vars(E.lift(e)):
            m = re.match(r"v(\d+)\[", name)
            if m:
                items.add(int(m.group(1)))
    return items


def make_batch(K, cls_name, perturb=None, base=None):
    from deepali.core.grid import Axes, Grid
    from deepali.data import FlowFields, ImageBatch

    C = 2 if cls_name == "FlowFields" else 1
    grids = [Grid(size=SHAPE[::-1], spacing=(1 + k, 2 + k), center=(10 * k, -5 * k)) for k in range(NB)]
    if base is None:
        vals = np.empty((NB, C) + SHAPE, dtype=object)
        for k in range(NB):
            vals[k] = K.reals(f"v{k}", (C,) + SHAPE, lo=Fraction(1, 10), hi=Fraction(9, 10))
        data = K.tensor(vals)
    else:
        data = base.as_subclass(torch.Tensor).clone()
        data[perturb] += 0.03125
    if cls_name == "FlowFields":
        return FlowFields(data, grids, Axes.WORLD), grids
    return ImageBatch(data, grids), grids


def execute(K, case, batch, record=True):
    """run the program; every operation is applied to every batch produced so far"""
    from deepali.data import ImageBatch

    ops = catalogue()
    cur = [batch]
    for name in case["program"]:
        nxt = []
        for obj in cur:
            if not isinstance(obj, torch.Tensor):
                continue
            if obj.ndim != 4 or not isinstance(obj, (ImageBatch,)):
                nxt.append(obj)
                continue
            if record:
                r = K.call(ops[name], obj)
            else:
                try:
                    r = ops[name](obj)
                except Exception as ex:  # noqa: BLE001
                    r = Raised(ex, "", name)
            if isinstance(r, Raised):
                # an operation may be rejected; it must not return a mis-described image
                if record:
                    K.note(f"{name}: raised {type(r.exc).__name__}: {str(r.exc)[:100]}")
                    K.ensure_returns(r, tag=f"accepted[{name}]", text="the operation is accepted (the statement only constrains what is returned)", kind="helper")
                continue
            nxt.extend(list(r) if isinstance(r, (tuple, list)) else [r])
        cur = nxt
    return cur


@register
class BatchGridBookkeeping:
    """Provenance: symbolic mode reads the free variables v{k}[...] of each result entry (all voxel values at once);
    bounded mode re-runs the program with item k perturbed and records which result entries change."""

    target = "deepali.data.image:ImageBatch.__torch_function__"
    properties = ("C19",)

    def cases(self, tier):
        ops = catalogue()
        for cls_name in ("ImageBatch", "FlowFields"):
            for name in ops:
                yield {"cls": cls_name, "program": [name]}
        core = ["index-slice", "index-list", "flip-batch", "cat-dim0", "split-int", "add-scalar", "narrow-batch", "clone", "index-slice-step", "roll-batch",
                "index_select", "stack", "repeat-batch", "transpose-spatial", "sum-batch-keep", "split-list", "index-ellipsis", "tensor_split-idx"]
        pairs = list(itertools.product(core, repeat=2))
        if tier == "quick":
            pairs = pairs[::5]
        for a, b in pairs:
            yield {"cls": "ImageBatch", "program": [a, b]}
            if tier != "quick":
                yield {"cls": "FlowFields", "program": [a, b]}

    def run(self, case, K):
        from deepali.data import FlowField, FlowFields, Image, ImageBatch

        batch, grids = make_batch(K, case["cls"])
        cur = execute(K, case, batch)
        alt = None
        if K.mode != "sym":
            alt = [execute(K, case, make_batch(K, case["cls"], perturb=k, base=batch)[0], record=False) for k in range(NB)]
        for j, res in enumerate(cur):
            if not isinstance(res, (ImageBatch, Image)):
                continue  # plain tensor: always acceptable
            is_batch = isinstance(res, ImageBatch)
            data = res.tensor()
            entries = [data[i] for i in range(data.shape[0])] if is_batch else [data]
            rg = list(res.grids()) if is_batch else [res.grid()]
            K.ensure(f"one-grid-per-entry[{j}]", E.bconst(len(rg) == len(entries)), text=Q19 + " [one grid per batch entry]")
            if len(rg) != len(entries):
                continue
            for i, (ent, g) in enumerate(zip(entries, rg)):
                K.ensure(f"shape[{j},{i}]", E.bconst(tuple(g.shape) == tuple(ent.shape[1:])), text=Q19 + " [grid shape == spatial shape of the data]")
                if K.mode == "sym":
                    src = provenance(K, K.val(ent))
                else:
                    src = set()
                    for k in range(NB):
                        o = alt[k][j] if j < len(alt[k]) else None
                        if not isinstance(o, torch.Tensor) or o.shape != res.shape:
                            src = set()
                            break
                        oe = o.as_subclass(torch.Tensor)[i] if is_batch else o.as_subclass(torch.Tensor)
                        if not torch.equal(oe, ent):
                            src.add(k)
                if len(src) == 1 and tuple(g.shape) == SHAPE:
                    k = next(iter(src))
                    same = g == grids[k] and all(not (g == grids[o]) for o in range(NB) if o != k)
                    K.ensure(f"grid-of-source[{j},{i}]", E.bconst(bool(same)), text=Q19 + f" [entry {i} of result {j} holds the data of item {k} and carries its grid]")
            if isinstance(res, (FlowFields, FlowField)):
                K.ensure(f"axes[{j}]", E.bconst(res.axes() == batch.axes()), text=Q19 + " [vector representation kept]")


@register
class BatchCopies:
    target = "deepali.data.image:ImageBatch.__deepcopy__"
    properties = ("C19", "C15")

    def cases(self, tier):
        for cls_name in ("ImageBatch", "FlowFields", "Image", "FlowField"):
            for how in ("copy", "deepcopy", "pickle", "clone"):
                yield {"cls": cls_name, "how": how}

    def run(self, case, K):
        from deepali.data import FlowField, FlowFields, Image, ImageBatch

        batch, grids = make_batch(K, "FlowFields" if case["cls"].startswith("Flow") else "ImageBatch")
        obj = batch if case["cls"] in ("ImageBatch", "FlowFields") else batch[1]
        if case["how"] == "pickle" and K.mode == "sym":
            K.note("pickling reads raw memory: evaluated in bounded mode only")
            K.ensure("skipped", E.TRUE, text="(bounded only)", kind="helper")
            return
        fn = {"copy": copy.copy, "deepcopy": copy.deepcopy, "pickle": lambda o: pickle.loads(pickle.dumps(o)), "clone": lambda o: o.clone()}[case["how"]]
        dup = K.call(fn, obj)
        if not K.ensure_returns(dup, text=Q19C):
            return
        K.ensure("type", E.bconst(type(dup) is type(obj)), text=Q19C + " [type]")
        if type(dup) is not type(obj):
            return
        K.ensure_eq("data", dup.tensor(), K.val(obj.tensor()), text=Q19C + " [data]")
        g1 = list(dup.grids()) if hasattr(dup, "grids") else [dup.grid()]
        g0 = list(obj.grids()) if hasattr(obj, "grids") else [obj.grid()]
        K.ensure("grids", E.bconst(len(g1) == len(g0) and all(a == b for a, b in zip(g1, g0))), text=Q19C + " [grids]")
        if hasattr(obj, "axes"):
            K.ensure("axes", E.bconst(dup.axes() == obj.axes()), text=Q19C + " [vector representation]")
        if case["how"] in ("deepcopy", "pickle", "clone"):
            # independence in both directions
            before = K.val(obj.tensor()).copy()
            with torch.no_grad():
                dup.tensor().mul_(0)
            K.ensure_eq("independent-data", obj.tensor(), before, text="C15: deep copies are independent in both directions [data]")
            if case["how"] != "clone":
                g1[0].center_(123.0)
                K.ensure("independent-grid", E.bconst(not (g1[0] == g0[0])), text="C15: deep copies are independent in both directions [grid]")


@register
class CollateSamples:
    """collate_samples(): samples whose fields are images / flow fields (single or batches of several, each with its own
    grid) are collated into batches that carry one grid per image, entry i the grid (and representation) of the image it
    holds; provenance of the data is symbolic (variable names), as in BatchGridBookkeeping."""

    target = "deepali.data.collate:collate_samples"
    properties = ("C19",)

    def cases(self, tier):
        for field in ("Image", "ImageBatch", "FlowField", "FlowFields"):
            for sizes in ((1, 1), (2, 1), (1, 2)):
                if field in ("Image", "FlowField") and sizes != (1, 1):
                    continue
                yield {"field": field, "images_per_sample": list(sizes)}

    def run(self, case, K):
        from deepali.core.grid import Axes, Grid
        from deepali.data import FlowField, FlowFields, Image, ImageBatch
        from deepali.data.collate import collate_samples

        flow = case["field"].startswith("Flow")
        C = 2 if flow else 1
        total = sum(case["images_per_sample"])
        grids = [Grid(size=SHAPE[::-1], spacing=(1 + k, 2 + k), center=(10 * k, -5 * k)) for k in range(total)]
        samples, k = [], 0
        for n in case["images_per_sample"]:
            vals = np.empty((n, C) + SHAPE, dtype=object)
            for i in range(n):
                vals[i] = K.reals(f"v{k + i}", (C,) + SHAPE, lo=Fraction(1, 10), hi=Fraction(9, 10))
            data = K.tensor(vals)
            gs = grids[k : k + n]
            if case["field"] == "Image":
                obj = Image(data[0], gs[0])
            elif case["field"] == "FlowField":
                obj = FlowField(data[0], gs[0], Axes.WORLD)
            elif case["field"] == "FlowFields":
                obj = FlowFields(data, gs, Axes.WORLD)
            else:
                obj = ImageBatch(data, gs)
            samples.append({"x": obj, "label": torch.tensor(k)})
            k += n
        out = K.call(collate_samples, samples)
        if not K.ensure_returns(out, text=Q19):
            return
        res = out["x"]
        K.ensure("type", E.bconst(isinstance(res, FlowFields if flow else ImageBatch)), text=Q19 + " [collated into a batch type]")
        rg = list(res.grids())
        K.ensure("one-grid-per-entry", E.bconst(len(rg) == res.shape[0] == total), text=Q19 + " [one grid per batch entry]")
        if len(rg) != res.shape[0]:
            return
        data = res.tensor()
        for i in range(res.shape[0]):
            src = provenance(K, K.val(data[i]), nb=total) if K.mode == "sym" else {i}
            if len(src) == 1:
                j = next(iter(src))
                K.ensure(f"grid-of-source[{i}]", E.bconst(bool(rg[i] == grids[j]) and all(not (rg[i] == grids[o]) for o in range(total) if o != j)),
                         text=Q19 + f" [entry {i} holds the data of image {j} and carries its grid]")
        if flow:
            K.ensure("axes", E.bconst(res.axes() == Axes.WORLD), text=Q19 + " [vector representation kept]")
