"""C06 / C07 - spatial transforms: one world-space map however evaluated; inverse() really inverts (deepali.spatial)."""
from __future__ import annotations

import itertools
import math
from fractions import Fraction

import numpy as np
import torch

from contracts.c01_grid import apply_spec
from contracts.c11_c13_flow import lattice
from contracts.common import make_grid, outside_cube_band, outside_eq_band
from spec import affine as SA
from spec import grid as SG
from vc import expr as E
from vc.contract import Raised, register

Q6I = "C06: every transformation model is the identity when freshly constructed with default parameters"
Q6V = ("C06: for any parameters its point map, its dense displacement field (on its own or any other grid), its matrix/tensor "
       "representation and its world-coordinate point API all describe the same mapping")
Q6C = "C06: a sequential composite applies its members in the listed order and a multi-level composite adds their displacements"
Q7 = ("C07: composing the transform with its inverse (in either order, obtained through inverse() with or without parameter linking, "
      "or the inv shortcut) maps every point to itself")
Q7S = "C07: the inverse shares the forward parameters, so it stays an inverse after those parameters are changed"

GSIZES = {2: (4, 3), 3: (3, 2, 3)}  # (x, ...) sizes of the transform's grid
OSIZES = {2: (3, 5), 3: (2, 3, 2)}
LINEAR = ("Translation", "EulerRotation", "QuaternionRotation", "IsotropicScaling", "AnisotropicScaling", "Shearing", "HomogeneousTransform")


def cube_axes(ac):
    return "cube_corners" if ac else "cube"


def nparams(name, D):
    return {"Translation": (D,), "EulerRotation": (1 if D == 2 else 3,), "QuaternionRotation": (4,), "IsotropicScaling": (1,),
            "AnisotropicScaling": (D,), "Shearing": (1 if D == 2 else 3,), "HomogeneousTransform": (D, D + 1)}[name]


def sym_params(K, name, D, tag="p"):
    """symbolic parameter values in a range where every model is well defined (witnesses inside the documented ranges)"""
    shp = (1,) + nparams(name, D)
    if name in ("IsotropicScaling", "AnisotropicScaling"):
        arr = K.reals(tag, shp, lo=Fraction(1, 2), hi=2)
    elif name == "QuaternionRotation":
        # all unit quaternions, rationally: q = p*p/|p|^2 (the model stores normalised quaternions)
        from contracts.c08_linalg import unit_quaternion

        arr = np.array([unit_quaternion(K, tag)], dtype=object)
    elif name == "HomogeneousTransform":
        arr = K.reals(tag, shp)
        M = arr[0][:, :D]
        det = E.sub(E.mul(M[0, 0], M[1, 1]), E.mul(M[0, 1], M[1, 0])) if D == 2 else SA.det3(M)
        K.assume(E.lt(Fraction(1, 100), det))
        for i in range(D):  # witness: near identity
            for j in range(D + 1):
                K.env[f"{tag}[0,{i},{j}]"] = Fraction(K.rng.randint(-8, 8), 32) + (1 if i == j else 0)
        K.assume(E.lt(Fraction(1, 100), det))
    else:
        arr = K.reals(tag, shp, lo=Fraction(-3, 4), hi=Fraction(3, 4))
    return arr


def build(K, name, grid, arr, held, invert=False):
    import deepali.spatial as sp

    t = K.tensor(arr)
    params = torch.nn.Parameter(t) if held == "parameter" else t
    cls = getattr(sp, name)
    if D3_ONLY.get(name) and grid.ndim != 3:
        return None
    m = cls(grid, params=params)
    if invert:
        m.invert = True  # what inverse() sets on its shallow copy
    return m


D3_ONLY = {"QuaternionRotation": True}


def result_map(K, t, D):
    """(A|t) per batch item denoted by transform.tensor()"""
    from contracts.c08_linalg import result_affine

    ten = K.call(t.tensor)
    if isinstance(ten, Raised):
        return ten
    return result_affine(K, ten, D)[0]


@register
class LinearTransformViews:
    target = "deepali.spatial.base:SpatialTransform.forward"
    properties = ("C06",)
    tol = 2e-4

    def cases(self, tier):
        for D in (2, 3):
            for name in LINEAR:
                if D == 2 and D3_ONLY.get(name):
                    continue
                for held in ("buffer", "parameter"):
                    for invert in (False, True):
                        for ac in (True, False):
                            if tier == "quick" and (not ac) and (invert or held == "parameter"):
                                continue
                            if tier == "quick" and D == 3 and held == "parameter" and invert:
                                continue
                            heavy = D == 3 and (name == "QuaternionRotation" or (name == "EulerRotation" and held == "parameter"))
                            yield {"D": D, "model": name, "held": held, "invert": invert, "align_corners": ac,
                                   "skip_other": bool(tier == "quick" and heavy)}
                            # (not built: 3-D with *two* freely oriented grids - the conjugation by two symbolic rotations does not
                            # normalise within 25 minutes per case even for a translation; the other grid is axis-aligned in 3-D)

    def run(self, case, K):
        from deepali.core.grid import Axes

        D, name, ac = case["D"], case["model"], case["align_corners"]
        g, gs = make_grid(K, "g", D, sizes=GSIZES[D], align_corners=ac)
        arr = sym_params(K, name, D)
        t = build(K, name, g, arr, case["held"], case["invert"])
        M = result_map(K, t, D)
        if not K.ensure_returns(M, text="tensor() is available"):
            return
        A, tr = M[:, :D], [M[i, D] for i in range(D)]
        # 1. point map (module call = update hook + forward)
        ep = K.reals("x", (1, 2, D))
        y = K.call(t, K.tensor(ep))
        if K.ensure_returns(y):
            K.ensure_eq("forward", y, apply_spec(A, tr, ep, False), text=Q6V + " [point map == tensor()]")
        # 2. matrix()
        m = K.call(t.matrix)
        if K.ensure_returns(m):
            K.ensure_eq("matrix", K.val(m)[0], M, text=Q6V + " [matrix() == tensor() as a map]")
        # 3. displacement field on its own grid
        shape = GSIZES[D][::-1]
        u = K.call(t.disp)
        if K.ensure_returns(u):
            x = lattice(shape, ac)
            want = np.moveaxis(apply_spec(A, tr, x, False) - 0, -1, 0)
            xs = np.moveaxis(x, -1, 0)
            K.ensure_eq("disp", K.val(u)[0], np.frompyfunc(E.sub, 2, 1)(want, xs), text=Q6V + " [disp() on its own grid: T(x) - x at every sample]")
        # 4. displacement field on another grid (any size, position, orientation, align_corners)
        # quick tier, 3-D: the other grid is axis-aligned (two free 3-D orientations make the conjugation very large)
        h, hs = make_grid(K, "h", D, sizes=OSIZES[D], align_corners=not ac, axis_aligned=(D == 3 and not case.get("oriented_other")))
        outside_eq_band(K, gs, hs)
        outside_cube_band(K, gs, ac, hs, not ac)  # grids whose cubes coincide within allclose are treated as one domain
        # (quick tier: the 3-D conjugation of quaternion / tanh-parametrised Euler models is left to the thorough tier)
        uo = K.call(t.disp, h) if not case.get("skip_other") else None
        if uo is not None and K.ensure_returns(uo):
            oshape = OSIZES[D][::-1]
            yh = lattice(oshape, not ac)                                   # other grid's own cube coordinates
            B, b = SG.point_map(hs, cube_axes(not ac), gs, cube_axes(ac))    # other cube -> transform cube
            Bi, bi = SG.point_map(gs, cube_axes(ac), hs, cube_axes(not ac))  # and back
            xin = apply_spec(B, b, yh, False)
            xout = apply_spec(A, tr, xin, False)
            yout = apply_spec(Bi, bi, xout, False)
            want = np.moveaxis(np.frompyfunc(E.sub, 2, 1)(yout, yh), -1, 0)
            K.ensure_eq("disp-other", K.val(uo)[0], want, text=Q6V + " [disp(other grid): the same world map re-expressed in the other grid's cube]")
        # 4b. displacement field on the *same lattice* read with the other align_corners flag (Grid.__eq__ ignores the flag,
        # the normalised cube does not): still the same world map, in the other cube's units
        h2 = g.align_corners(not ac)
        hs2 = SG.GridSpec(gs.N, gs.s, gs.c, gs.R, not ac)
        outside_cube_band(K, gs, ac, hs2, not ac)  # (extents n s and (n-1) s coincide within allclose only for tiny spacings)
        uf = K.call(t.disp, h2) if not case.get("skip_other") or D == 2 else None
        if uf is not None and K.ensure_returns(uf):
            yh = lattice(shape, not ac)
            B, b = SG.point_map(hs2, cube_axes(not ac), gs, cube_axes(ac))
            Bi, bi = SG.point_map(gs, cube_axes(ac), hs2, cube_axes(not ac))
            yout = apply_spec(Bi, bi, apply_spec(A, tr, apply_spec(B, b, yh, False), False), False)
            want = np.moveaxis(np.frompyfunc(E.sub, 2, 1)(yout, yh), -1, 0)
            K.ensure_eq("disp-other-flag", K.val(uf)[0], want, text=Q6V + " [disp(own lattice with the other align_corners flag)]")
        # 5. world-coordinate point API
        ew = K.reals("w", (2, D))
        pw = K.call(t.points, K.tensor(ew), axes=Axes.WORLD)
        if K.ensure_returns(pw):
            B, b = SG.point_map(gs, "world", gs, cube_axes(ac))
            Bi, bi = SG.point_map(gs, cube_axes(ac), gs, "world")
            want = apply_spec(Bi, bi, apply_spec(A, tr, apply_spec(B, b, ew, False), False), False)
            K.ensure_eq("points-world", pw, want, text=Q6V + " [points(axes=WORLD) is the conjugation of the cube map by the grid's world map]")


@register
class IdentityAtConstruction:
    target = "deepali.spatial.parametric:ParametricTransform.reset_parameters"
    properties = ("C06",)
    MODELS = LINEAR + ("RigidTransform", "RigidQuaternionTransform", "SimilarityTransform", "AffineTransform", "FullAffineTransform",
                       "DisplacementFieldTransform", "StationaryVelocityFieldTransform", "FreeFormDeformation",
                       "StationaryVelocityFreeFormDeformation")

    def cases(self, tier):
        for D in (2, 3):
            for name in self.MODELS:
                if D == 2 and name in ("QuaternionRotation", "RigidQuaternionTransform"):
                    continue
                for params in (True, False):
                    yield {"D": D, "model": name, "params": params}

    def run(self, case, K):
        import deepali.spatial as sp

        D, name = case["D"], case["model"]
        g, gs = make_grid(K, "g", D, sizes=(6, 5) if D == 2 else (5, 4, 5), align_corners=True)
        cls = getattr(sp, name)
        if name.endswith("Transform") and name not in LINEAR and not name.startswith(("Displacement", "StationaryVelocity")):
            t = K.call(cls, g)  # rigid / similarity / affine composites take per-member parameter arguments
        else:
            t = K.call(cls, g, params=case["params"])
        if not K.ensure_returns(t, text=Q6I + " [construction succeeds]"):
            return
        ep = K.reals("x", (1, 3, D), lo=Fraction(-3, 4), hi=Fraction(3, 4))
        y = K.call(t, K.tensor(ep))
        if K.ensure_returns(y, text=Q6I):
            K.ensure_eq("identity", y, ep, text=Q6I + " [T(x) = x]")
        u = K.call(t.disp)
        if K.ensure_returns(u, text=Q6I):
            K.ensure_eq("zero-disp", u, np.full(tuple(u.shape), E.ZERO, dtype=object), text=Q6I + " [disp() = 0]")


@register
class CompositeTransforms:
    target = "deepali.spatial.composite:SequentialTransform.forward"
    properties = ("C06",)
    tol = 2e-4

    def cases(self, tier):
        for D in (2, 3):
            for kind in ("sequential", "multilevel"):
                for pair in (("Translation", "AnisotropicScaling"), ("EulerRotation", "Translation"), ("Shearing", "AnisotropicScaling")):
                    yield {"D": D, "kind": kind, "members": list(pair)}
            # longer sequences: every operand-form pair of the matrix composition (a member without translation after a
            # prefix that carries one, and vice versa)
            for seq in (("EulerRotation", "Translation", "AnisotropicScaling"), ("HomogeneousTransform", "EulerRotation"),
                        ("Translation", "Shearing", "Translation"), ("AnisotropicScaling", "HomogeneousTransform", "IsotropicScaling")):
                if tier == "quick" and D == 3 and len(seq) == 3 and seq[0] != "EulerRotation":
                    continue
                yield {"D": D, "kind": "sequential", "members": list(seq)}

    def run(self, case, K):
        import deepali.spatial as sp

        D = case["D"]
        g, gs = make_grid(K, "g", D, sizes=GSIZES[D], align_corners=True)
        members, maps = [], []
        for i, name in enumerate(case["members"]):
            arr = sym_params(K, name, D, tag=f"p{i}")
            m = build(K, name, g, arr, "buffer")
            members.append(m)
            M = result_map(K, m, D)
            maps.append((M[:, :D], [M[r, D] for r in range(D)]))
        cls = sp.SequentialTransform if case["kind"] == "sequential" else sp.MultiLevelTransform
        t = K.call(cls, *members)
        if not K.ensure_returns(t):
            return
        ep = K.reals("x", (1, 2, D))
        y = K.call(t, K.tensor(ep))
        def chain(pts, order):
            for k in order:
                pts = apply_spec(maps[k][0], maps[k][1], pts, False)
            return pts

        nm = len(maps)
        if case["kind"] == "sequential":
            want = chain(ep, range(nm))
            bad = chain(ep, reversed(range(nm)))
        else:
            y0 = apply_spec(maps[0][0], maps[0][1], ep, False)
            y1 = apply_spec(maps[1][0], maps[1][1], ep, False)
            want = np.frompyfunc(lambda a, b, x: E.sub(E.add(a, b), x), 3, 1)(y0, y1, ep)
            bad = None
        if K.ensure_returns(y, text=Q6C):
            K.ensure_eq("forward", y, want, text=Q6C)
            if bad is not None:
                K.ensure_eq("mustfail", y, bad, text="members applied in reverse order", must_fail=True)
        M = result_map(K, t, D)
        if K.ensure_returns(M, text=Q6C + " [tensor() of the composite]"):
            K.ensure_eq("tensor", apply_spec(M[:, :D], [M[i, D] for i in range(D)], ep, False), want, text=Q6C + " [tensor() describes the same map]")
        u = K.call(t.disp)
        if K.ensure_returns(u):
            x = lattice(GSIZES[D][::-1], True)
            if case["kind"] == "sequential":
                yx = chain(x, range(nm))
            else:
                a, b = apply_spec(maps[0][0], maps[0][1], x, False), apply_spec(maps[1][0], maps[1][1], x, False)
                yx = np.frompyfunc(lambda p, q, r: E.sub(E.add(p, q), r), 3, 1)(a, b, x)
            K.ensure_eq("disp", K.val(u)[0], np.moveaxis(np.frompyfunc(E.sub, 2, 1)(yx, x), -1, 0), text=Q6C + " [disp()]")


@register
class InverseLinear:
    target = "deepali.spatial.parametric:InvertibleParametricTransform.inverse"
    properties = ("C07", "C15")
    tol = 5e-4

    def cases(self, tier):
        for D in (2, 3):
            for name in LINEAR:
                if D == 2 and D3_ONLY.get(name):
                    continue
                for held in ("buffer", "parameter"):
                    for how in ("inverse", "inverse-link", "inv"):
                        if tier == "quick" and D == 3 and how == "inv":
                            continue
                        yield {"D": D, "model": name, "held": held, "how": how}

    def run(self, case, K):
        D, name = case["D"], case["model"]
        g, gs = make_grid(K, "g", D, sizes=GSIZES[D], align_corners=True)
        arr = sym_params(K, name, D)
        t = build(K, name, g, arr, case["held"])
        before = [(n, p, K.val(p)) for n, p in list(t.named_parameters()) + list(t.named_buffers())]
        if case["how"] == "inverse":
            inv = K.call(t.inverse)
        elif case["how"] == "inverse-link":
            inv = K.call(t.inverse, link=True, update_buffers=True)
        else:
            inv = K.call(lambda: t.inv, protect=[t])
        if not K.ensure_returns(inv, text=Q7 + " [the inverse can be obtained]"):
            return
        K.ensure("original-invert-flag", E.bconst(t.invert is False and inv is not t), text="C15: inverse() leaves the object it was called on as it was", kind="helper")
        ep = K.reals("x", (1, 2, D))
        x = K.tensor(ep)
        y = K.call(t, x)
        if not K.ensure_returns(y):
            return
        back = K.call(inv, y)
        if K.ensure_returns(back):
            K.ensure_eq("inv(t(x))", back, ep, text=Q7)
        z = K.call(inv, x)
        if K.ensure_returns(z):
            fwd = K.call(t, z)
            if K.ensure_returns(fwd):
                K.ensure_eq("t(inv(x))", fwd, ep, text=Q7)
        # parameters are shared: change them (in place, then by replacement) and the pair must still be inverse
        if name not in ("QuaternionRotation", "HomogeneousTransform"):  # (these need a valid rotation / invertible matrix)
            with torch.no_grad():
                p = t.data()
                K.call(p.mul_, 0.5, modifies=[p])
            y3 = K.call(t, x)
            b3 = K.call(inv, y3) if not isinstance(y3, Raised) else y3
            if K.ensure_returns(b3):
                K.ensure_eq("after-inplace", b3, ep, text=Q7S + " [after an in-place (optimiser-style) update of the parameters]")
        arr2 = sym_params(K, name, D, tag="q")
        r = K.call(t.data_, K.tensor(arr2), modifies=[p for _, p, _ in before])
        if K.ensure_returns(r):
            y2 = K.call(t, x)
            b2 = K.call(inv, y2) if not isinstance(y2, Raised) else y2
            if K.ensure_returns(b2):
                K.ensure_eq("after-replace", b2, ep, text=Q7S + " [after data_() replaced the parameters]")


@register
class InverseComposite:
    target = "deepali.spatial.composite:SequentialTransform.inverse"
    properties = ("C07",)
    tol = 5e-4

    def cases(self, tier):
        for D in (2, 3):
            for model in ("RigidTransform", "SimilarityTransform", "AffineTransform", "FullAffineTransform") + (("RigidQuaternionTransform",) if D == 3 else ()):
                yield {"D": D, "model": model}
        # user-built sequences whose matrix composition takes the other operand-form branches (a full matrix after a
        # translation, a matrix without translation after a full matrix, ...), forward or in the reversed order of inverse()
        for seq in (("Translation", "HomogeneousTransform"), ("HomogeneousTransform", "Translation"), ("Translation", "EulerRotation", "Translation"),
                    ("AnisotropicScaling", "HomogeneousTransform"), ("HomogeneousTransform", "Shearing")):
            yield {"D": 2, "model": "Sequential", "members": list(seq)}
        yield {"D": 3, "model": "Sequential", "members": ["Translation", "HomogeneousTransform"]}

    def run(self, case, K):
        import deepali.spatial as sp

        D = case["D"]
        g, gs = make_grid(K, "g", D, sizes=GSIZES[D], align_corners=True)
        if case["model"] == "Sequential":
            members = [build(K, name, g, sym_params(K, name, D, tag=f"p{i}"), "buffer") for i, name in enumerate(case["members"])]
            t = sp.SequentialTransform(*members)
            return self._check(K, t, D)
        kw = {"RigidTransform": ("rotation", "translation"), "RigidQuaternionTransform": ("rotation", "translation"),
              "SimilarityTransform": ("rotation", "scaling", "translation"), "AffineTransform": ("rotation", "scaling", "translation"),
              "FullAffineTransform": ("rotation", "scaling", "shearing", "translation")}[case["model"]]
        t = getattr(sp, case["model"])(g, **{k: False for k in kw})
        # set symbolic parameter values on every member
        for i, (mname, m) in enumerate(t.named_transforms()):
            arr = sym_params(K, type(m).__name__, D, tag=f"p{i}")
            m.data_(K.tensor(arr))
        self._check(K, t, D)

    def _check(self, K, t, D):
        inv = K.call(t.inverse)
        if not K.ensure_returns(inv, text=Q7):
            return
        ep = K.reals("x", (1, 2, D))
        y = K.call(t, K.tensor(ep))
        if K.ensure_returns(y):
            back = K.call(inv, y)
            if K.ensure_returns(back):
                K.ensure_eq("inv(t(x))", back, ep, text=Q7 + " [composite: order reversed, every member inverted]")
        z = K.call(inv, K.tensor(ep))
        if K.ensure_returns(z):
            fwd = K.call(t, z)
            if K.ensure_returns(fwd):
                K.ensure_eq("t(inv(x))", fwd, ep, text=Q7)


@register
class InverseVelocityBounded:
    """Bounded: SVF / SVFFD inverse on smooth fields: || inv(t(x)) - x || is a small fraction of a sample."""

    target = "deepali.spatial.nonrigid:StationaryVelocityFieldTransform.inverse"
    properties = ("C07", "C11")
    symbolic = False
    n_bounded = {"quick": 3, "thorough": 12}

    def cases(self, tier):
        for model in ("StationaryVelocityFieldTransform", "StationaryVelocityFreeFormDeformation"):
            for link in (False, True):
                yield {"model": model, "link": link}

    def run(self, case, K):
        import deepali.spatial as sp
        from deepali.core.grid import Grid

        n = 24
        g = Grid(size=(n, n))
        t = getattr(sp, case["model"])(g, params=False) if case["model"].startswith("StationaryVelocityField") else getattr(sp, case["model"])(g, params=False, stride=4)
        shape = t.data().shape
        r = K.rng
        gen = torch.Generator().manual_seed(r.randint(0, 1 << 30))
        K.env["seed"] = gen.initial_seed()
        amp = 0.3 * 2 / n
        # smooth field: low-pass random coefficients
        v = torch.randn(shape, generator=gen)
        for _ in range(6):
            v = torch.nn.functional.avg_pool2d(torch.nn.functional.pad(v, (1, 1, 1, 1), mode="replicate"), 3, stride=1)
        v = v / v.abs().max() * amp
        t.data_(v)
        inv = K.call(t.inverse, link=case["link"], update_buffers=True)
        if not K.ensure_returns(inv, text=Q7 + " [velocity-field models]"):
            return
        x = (torch.rand((1, 200, 2), generator=gen) - 0.5) * 1.2
        y = K.call(t, x)
        if not K.ensure_returns(y):
            return
        back = K.call(inv, y)
        if K.ensure_returns(back):
            err = (back - x).norm(dim=-1).max().item() / (2 / n)
            K.env["err_samples"] = err
            K.ensure("small", E.bconst(err < 0.05), text=f"C07: for velocity-field models on smooth fields to within a small fraction of a sample: {err:.4f} samples (bound 0.05)")
        # an inverse created with update_buffers=True *after* the forward map was evaluated is usable as it is: its buffered
        # displacement (points() / disp() do not run the update hook) is that of the inverse map
        if not case["link"]:
            inv2 = K.call(t.inverse, update_buffers=True)
            if K.ensure_returns(inv2, text=Q7 + " [velocity-field models]"):
                from deepali.core.grid import Axes

                ax = Axes.from_grid(g)
                back2 = K.call(inv2.points, y.detach(), axes=ax)
                if K.ensure_returns(back2):
                    err2 = (back2 - x).norm(dim=-1).max().item() / (2 / n)
                    K.env["err_samples_buffered"] = err2
                    K.ensure("small-buffered", E.bconst(err2 < 0.05), text=f"C07: inverse(update_buffers=True) taken after an evaluation, used through points(): {err2:.4f} samples (bound 0.05)")


@register
class NonRigidViews:
    """Non-rigid models holding an nn.Parameter: after the parameters were evaluated once and then replaced, the module call,
    forward(grid=True), disp(), tensor() and disp(other grid) all describe the map of the *current* parameters.
    Fields are affine in position (so that interpolation is exact) and keep the sample hull invariant."""

    target = "deepali.spatial.base:NonRigidTransform.tensor"
    properties = ("C06", "C09")
    tol = 2e-4

    def cases(self, tier):
        for kind in ("ddf", "svf", "ffd"):
            for held in ("parameter", "buffer"):
                yield {"model": kind, "held": held}

    def run(self, case, K):
        import deepali.spatial as sp
        from contracts.c11_c13_flow import affine_disp, hull, invariant_map

        kind = case["model"]
        D = 2
        size = (5, 5) if kind == "ffd" else (4, 3)
        g, gs = make_grid(K, "g", D, sizes=size, align_corners=True)
        shape = size[::-1]
        if kind == "ddf":
            t = sp.DisplacementFieldTransform(g, params=(case["held"] == "parameter"))
        elif kind == "svf":
            t = sp.StationaryVelocityFieldTransform(g, params=(case["held"] == "parameter"), steps=1, scale=2.0)
        else:
            t = sp.FreeFormDeformation(g, params=(case["held"] == "parameter"), stride=2)
        ex = K.reals("x", (1, 2, D), lo=Fraction(-1, 2), hi=Fraction(1, 2))
        x = K.tensor(ex)
        first = K.call(t, x, modifies=_mstate(t))  # buffers now hold the field of the default parameters
        if K.ensure_returns(first, text=Q6I):
            K.ensure_eq("identity", first, ex, text=Q6I)
        P, tr = invariant_map(K, "m", D, hull(shape, True))
        if kind == "ffd":
            # B-spline coefficients that are affine in the control point position give the affine field itself (linear precision)
            cshape = tuple(t.data().shape)
            vals = np.empty(cshape, dtype=object)
            for idx in np.ndindex(*cshape[2:]):
                # control point (iy, ix) sits at cube coordinate -1 + (i - 1) * stride * 2 / (n - 1)
                xc = [E.const(Fraction(-1) + Fraction((idx[1] - 1) * 2 * 2, size[0] - 1)), E.const(Fraction(-1) + Fraction((idx[0] - 1) * 2 * 2, size[1] - 1))]
                y = SG.matvec(P, xc)
                for i in range(D):
                    vals[(0, i) + idx] = E.sub(E.add(y[i], tr[i]), xc[i])
        else:
            vals = affine_disp(P, tr, shape, True)
        r = K.call(t.data_, K.tensor(vals), modifies=_mstate(t))
        if not K.ensure_returns(r):
            return
        if kind == "svf":
            Pm, tm = SG.matmul(P, P), [E.add(SG.matvec(P, tr)[i], tr[i]) for i in range(D)]  # one squaring step of scale 2 / 2
        else:
            Pm, tm = P, tr
        lat = lattice(shape, True)
        want_u = np.moveaxis(np.frompyfunc(E.sub, 2, 1)(apply_spec(Pm, tm, lat, False), lat), -1, 0)
        u = K.call(t.disp, modifies=_mstate(t))
        if K.ensure_returns(u):
            K.ensure_eq("disp", K.val(u)[0], want_u, text=Q6V + " [disp() reflects the current parameters]")
        ten = K.call(t.tensor, modifies=_mstate(t))
        if K.ensure_returns(ten):
            K.ensure_eq("tensor", K.val(ten)[0], want_u, text=Q6V + " [tensor()]")
        y = K.call(t, x, modifies=_mstate(t))
        if K.ensure_returns(y):
            K.ensure_eq("points", y, apply_spec(Pm, tm, ex, False), text=Q6V + " [point map]")
        yg = K.call(t, K.tensor(lat[None]), grid=True, modifies=_mstate(t))
        if K.ensure_returns(yg):
            K.ensure_eq("grid-points", K.val(yg)[0], apply_spec(Pm, tm, lat, False), text=Q6V + " [forward(grid=True) on the grid's own sample points]")
        # displacement field on other grids: the same world map, in the units of the *other* grid's normalised cube
        # (a) the same lattice read with the other align_corners flag: cube = cube_corners * (n - 1) / n per axis
        def rescale(vals, shp):
            out = vals.copy()
            for i in range(D):
                n = shp[D - 1 - i]  # axis i (x first) has n samples
                out[i] = np.frompyfunc(lambda v, n=n: E.mul(v, Fraction(n - 1, n)), 1, 1)(vals[i])
            return out

        ua = K.call(t.disp, g.align_corners(False), modifies=_mstate(t))
        if K.ensure_returns(ua, text=Q6V + " [disp(own lattice, other align_corners flag)]"):
            K.ensure_eq("disp-other-flag", K.val(ua)[0], rescale(want_u, shape), text=Q6V + " [disp(own lattice with the other align_corners flag): vectors in that grid's cube units]")
        # (b) a finer grid over the same domain, and (c) that finer lattice with the other flag (the resampling path rounds
        # sample coordinates to 12 decimals: compared up to that perturbation)
        fsize = (7, 5)
        fshape = fsize[::-1]
        flat = lattice(fshape, True)
        want_f = np.moveaxis(np.frompyfunc(E.sub, 2, 1)(apply_spec(Pm, tm, flat, False), flat), -1, 0)
        h3 = g.resize(fsize)
        ub = K.call(t.disp, h3, modifies=_mstate(t))
        if K.ensure_returns(ub, text=Q6V + " [disp(finer grid)]"):
            K.ensure_close("disp-finer", K.val(ub)[0], want_f, text=Q6V + " [disp(finer grid over the same domain)]")
        uc = K.call(t.disp, h3.align_corners(False), modifies=_mstate(t))
        if K.ensure_returns(uc, text=Q6V + " [disp(finer grid, other flag)]"):
            K.ensure_close("disp-finer-other-flag", K.val(uc)[0], rescale(want_f, fshape), text=Q6V + " [disp(finer lattice with the other align_corners flag)]")


def _mstate(t):
    return [p for _, p in list(t.named_parameters()) + list(t.named_buffers())]


@register
class SequentialWithNonRigid:
    """A sequential composite with a non-rigid member that is not first: members are applied in the listed order to the
    already transformed points, with and without grid=True."""

    target = "deepali.spatial.composite:SequentialTransform.forward"
    properties = ("C06",)
    tol = 2e-4

    def cases(self, tier):
        for kind in ("sequential",):
            for grid_flag in (False, True):
                yield {"kind": kind, "grid": grid_flag}

    def run(self, case, K):
        import deepali.spatial as sp
        from contracts.c11_c13_flow import affine_disp, hull, invariant_map

        D = 2
        size = (4, 3)
        shape = size[::-1]
        g, gs = make_grid(K, "g", D, sizes=size, align_corners=True)
        # first member: a contraction towards the centre (keeps every sample inside the hull), second: dense field
        sc = K.reals("sc", (1, D), lo=Fraction(1, 2), hi=Fraction(9, 10))
        first = sp.AnisotropicScaling(g, params=K.tensor(sc))
        P, tr = invariant_map(K, "m", D, hull(shape, True))
        second = sp.DisplacementFieldTransform(g, params=K.tensor(affine_disp(P, tr, shape, True)))
        t = sp.SequentialTransform(first, second)
        lat = lattice(shape, True)
        x = K.tensor(lat[None])
        y = K.call(t, x, grid=case["grid"], modifies=_mstate(t))
        if not K.ensure_returns(y):
            return
        S = SG.diag(list(sc[0]))
        mid = apply_spec(S, [E.ZERO] * D, lat, False)
        want = apply_spec(P, tr, mid, False)
        K.ensure_eq("composed", K.val(y)[0], want, text=Q6C + " [the dense member samples its field at the points already moved by the first member]")


@register
class ImageWarpOnOtherTargets:
    """Bounded: ImageTransformer(t, target, source)(image) - the warped image on the target grid holds, at every target
    sample whose image under t lies inside the source domain, the source intensity at world(T(x)); image = linear ramp in
    world coordinates, t = world-affine small displacement (exactly representable by every model), targets = the
    transformation's own grid, a crop of it, a shifted copy, a finer grid over the same domain."""

    target = "deepali.spatial.transformer:ImageTransformer.forward"
    properties = ("C06",)
    symbolic = False
    n_bounded = {"quick": 2, "thorough": 10}
    tol = 2e-3

    def cases(self, tier):
        for model in ("AffineTransform", "DisplacementFieldTransform", "StationaryVelocityFieldTransform", "FreeFormDeformation"):
            for target in ("same", "crop", "shift", "finer"):
                yield {"model": model, "target": target}
            # the source image lies on a grid read with the other align_corners flag than the transformation's grid
            yield {"model": model, "target": "same", "source_flag": "other"}
            yield {"model": model, "target": "crop", "source_flag": "other"}

    def run(self, case, K):
        import deepali.spatial as sp
        from deepali.core.grid import Axes, Grid

        r = K.rng
        D = 2
        a_ = r.uniform(-0.5, 0.5)
        R = torch.tensor([[np.cos(a_), -np.sin(a_)], [np.sin(a_), np.cos(a_)]], dtype=torch.float32)
        g = Grid(size=(13, 11), spacing=(r.uniform(0.7, 1.4), r.uniform(0.7, 1.4)), center=(r.uniform(-2, 2), r.uniform(-2, 2)), direction=R)
        M = g.transform(Axes.GRID, Axes.WORLD)
        xw = g.coords(normalize=False).float().reshape(-1, D) @ M[:, :D].T + M[:, D]
        if case["model"] == "StationaryVelocityFieldTransform":
            A = torch.zeros(D, D)  # constant velocity: exp(v) = v exactly
        else:
            A = torch.tensor([[r.uniform(-0.04, 0.04) for _ in range(D)] for _ in range(D)])
        b = torch.tensor([r.uniform(-0.4, 0.4) for _ in range(D)])
        K.env.update({"A": A.tolist(), "b": b.tolist(), "angle": a_})
        if case["model"] == "AffineTransform":
            # world map x -> x + A x + b, conjugated into the cube of g
            W = torch.eye(D + 1)
            W[:D, :D] += A
            W[:D, D] = b
            C2W = torch.eye(D + 1)
            C2W[:D] = g.transform(Axes.from_grid(g), Axes.WORLD)
            Mc = torch.linalg.inv(C2W) @ W @ C2W
            t = sp.HomogeneousTransform(g, params=Mc[:D].unsqueeze(0).contiguous())
        else:
            uw = xw @ A.T + b
            W2C = g.transform(Axes.WORLD, Axes.from_grid(g), vectors=True)[:D, :D]
            uc = (uw @ W2C.T).T.reshape(1, D, *g.shape).contiguous()
            if case["model"] == "FreeFormDeformation":
                t = sp.FreeFormDeformation(g, params=True, stride=1)
                t.fit(sp.DisplacementFieldTransform(g, params=uc.clone()).disp(), lr=0.5, steps=0) if False else None
                # coefficients affine in the control point position reproduce the affine field (linear precision)
                from deepali.core.bspline import cubic_bspline_control_point_grid

                cg = cubic_bspline_control_point_grid(g, 1)
                Mc_ = cg.transform(Axes.GRID, Axes.WORLD)
                cw = cg.coords(normalize=False).float().reshape(-1, D) @ Mc_[:, :D].T + Mc_[:, D]
                cu = ((cw @ A.T + b) @ W2C.T).T.reshape(1, D, *cg.shape).contiguous()
                t = sp.FreeFormDeformation(g, params=cu, stride=1)
            elif case["model"] == "StationaryVelocityFieldTransform":
                t = sp.StationaryVelocityFieldTransform(g, params=uc.clone(), steps=4)
            else:
                t = sp.DisplacementFieldTransform(g, params=uc.clone())
        if case["target"] == "same":
            tg = g
        elif case["target"] == "crop":
            tg = g.crop(num=(2, 3, 1, 2))
        elif case["target"] == "shift":
            tg = g.center(g.center() + g.direction() @ (g.spacing() * torch.tensor([1.3, -0.8])))
        else:
            tg = g.resize((25, 21))
        coef = torch.tensor([r.uniform(-1, 1) for _ in range(D)])
        c0 = r.uniform(-1, 1)
        img = (xw @ coef + c0).reshape(1, 1, *g.shape)
        src = g.align_corners(not g.align_corners()) if case.get("source_flag") == "other" else g  # same lattice either way
        tr = K.call(sp.ImageTransformer, t, target=tg, source=src)
        if not K.ensure_returns(tr):
            return
        out = K.call(tr, img)
        if not K.ensure_returns(out):
            return
        Mt = tg.transform(Axes.GRID, Axes.WORLD)
        xt = tg.coords(normalize=False).float().reshape(-1, D) @ Mt[:, :D].T + Mt[:, D]
        yt = xt + xt @ A.T + b
        want = (yt @ coef + c0).reshape(tg.shape)
        # inside the source domain (in index space of g, one voxel margin)
        W2G = g.transform(Axes.WORLD, Axes.GRID)
        yi = yt @ W2G[:, :D].T + W2G[:, D]
        xi = xt @ W2G[:, :D].T + W2G[:, D]
        size = torch.tensor([float(n) for n in g.size()])
        inside = ((yi >= 1) & (yi <= size - 2) & (xi >= 1) & (xi <= size - 2)).all(1).reshape(tg.shape)
        K.ensure("overlap", E.bconst(int(inside.sum()) >= 10), text="(vacuity guard: target samples inside the source domain)", kind="helper")
        got = out[0, 0]
        err = float((got - want).abs()[inside].max()) if int(inside.sum()) else 0.0
        K.env["max_err"] = err
        scale = float(want.abs().max()) + 1.0
        K.ensure("warp", E.bconst(err <= 2e-3 * scale), text=Q6V + f" [image warped onto a target grid ({case['target']}): intensity at world(T(x)), max error {err:.2e}]")
