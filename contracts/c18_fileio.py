"""C18 - images and flow fields survive a write/read round trip in every supported format.  Bounded only: no obligation can
be stated over zlib / numpy.frombuffer / nibabel / SimpleITK internals; the configuration space (format x D x channels x dtype
x compress) is enumerated exhaustively, geometry and contents are seeded."""
from __future__ import annotations

import os
import shutil
import tempfile
from fractions import Fraction

import numpy as np
import torch

from vc import expr as E
from vc.contract import Raised, register

Q18 = ("C18: writing an image or flow field to any supported file format and reading it back returns the same voxel values (exactly, for "
       "the stored data type), channel count and sampling grid (size, origin, spacing, orientation)")
Q18S = "C18: files written by the library are read identically by SimpleITK and vice versa"
Q18F = "C18: flow fields are stored with world-space vectors and return to their original representation"

FORMATS = (".mha", ".mhd", ".nii", ".nii.gz", ".nrrd")
DTYPES = ("uint8", "int16", "int32", "float32", "float64")


def scratch_dir():
    root = os.environ.get("VERIF_SCRATCH") or os.path.join(os.path.dirname(os.path.dirname(os.path.abspath(__file__))), ".scratch")
    os.makedirs(root, exist_ok=True)
    return tempfile.mkdtemp(prefix="c18_", dir=root)


def seeded_grid(K, D, size):
    from deepali.core.grid import Grid

    r = K.rng
    sp = [round(r.uniform(0.4, 2.5), 3) for _ in range(D)]
    org = [round(r.uniform(-40, 40), 2) for _ in range(D)]
    if D == 2:
        a = r.uniform(-3, 3)
        R = torch.tensor([[np.cos(a), -np.sin(a)], [np.sin(a), np.cos(a)]], dtype=torch.float64)
    else:
        from deepali.core.linalg import quaternion_to_rotation_matrix

        R = quaternion_to_rotation_matrix(torch.tensor([r.gauss(0, 1) for _ in range(4)], dtype=torch.float64))
    return Grid(size=size, origin=org, spacing=sp, direction=R.float())


def same_grid(K, tag, g, ref, text):
    K.ensure(f"{tag}-size", E.bconst(tuple(g.size()) == tuple(ref.size())), text=text + " [size]")
    K.ensure_eq(f"{tag}-origin", g.origin().double(), ref.origin().double().numpy(), text=text + " [origin]", tol=1e-5)
    K.ensure_eq(f"{tag}-spacing", g.spacing().double(), ref.spacing().double().numpy(), text=text + " [spacing]", tol=1e-5)
    K.ensure_eq(f"{tag}-direction", g.direction().double(), ref.direction().double().numpy(), text=text + " [orientation]", tol=1e-5)


@register
class ImageFileRoundTrip:
    target = "deepali.utils.imageio:write_image"
    properties = ("C18",)
    symbolic = False
    n_bounded = {"quick": 1, "thorough": 4}
    tol = 1e-5

    def cases(self, tier):
        for ext in FORMATS:
            for D in (2, 3):
                for C in (1, 2, 3):
                    for dt in DTYPES:
                        yield {"format": ext, "D": D, "channels": C, "dtype": dt}

    def run(self, case, K):
        import SimpleITK as sitk

        from deepali.data import Image

        D, C, ext = case["D"], case["channels"], case["format"]
        dt = getattr(torch, case["dtype"])
        size = tuple(K.rng.randint(2, 5) for _ in range(D))
        g = seeded_grid(K, D, size)
        gen = torch.Generator().manual_seed(K.rng.randint(0, 1 << 30))
        K.env["seed"] = gen.initial_seed()
        shape = (C,) + size[::-1]
        data = (torch.rand(shape, generator=gen) * 200).to(dt) if not dt.is_floating_point else torch.randn(shape, generator=gen, dtype=dt)
        compress = K.rng.random() < 0.5
        K.env["compress"] = compress
        im = Image(data, g)
        d = scratch_dir()
        try:
            path = os.path.join(d, "image" + ext)
            w = K.call(im.write, path, compress=compress)
            written = K.ensure_returns(w, text=Q18 + f" [write {ext}]")
            back = K.call(Image.read, path) if written else None
            if written and K.ensure_returns(back, text=Q18 + f" [read {ext}]"):
                K.ensure("channels", E.bconst(tuple(back.shape) == tuple(im.shape)), text=Q18 + " [channel count and size]")
                if tuple(back.shape) == tuple(im.shape):
                    K.ensure("values", E.bconst(bool(torch.equal(back.tensor().to(torch.float64), data.to(torch.float64)))), text=Q18 + " [voxel values exactly]")
                    K.ensure("dtype", E.bconst(back.dtype == dt), text=Q18 + " [stored data type]", kind="helper")
                same_grid(K, "grid", back.grid(), g, Q18)
                # the image just read can be written back to the same path (e.g. after changing its grid) and read again
                if tuple(back.shape) == tuple(im.shape):
                    w2 = K.call(back.write, path, compress=compress)
                    if K.ensure_returns(w2, text=Q18 + f" [re-write {ext} to the path it was read from]"):
                        again = K.call(Image.read, path)
                        if K.ensure_returns(again, text=Q18 + f" [read {ext} after re-write]"):
                            K.ensure("values-after-rewrite", E.bconst(tuple(again.shape) == tuple(im.shape) and bool(torch.equal(again.tensor().to(torch.float64), data.to(torch.float64)))),
                                     text=Q18 + " [voxel values exactly, after writing the image that was read back to the same path]")
            # interoperability: library-written file read by SimpleITK
            try:
                ref = sitk.ReadImage(path) if written else None
            except Exception as ex:  # noqa: BLE001
                ref = Raised(ex, "", "SimpleITK.ReadImage")
            if written and K.ensure_returns(ref, text=Q18S + " [library-written file read by SimpleITK]"):
                via = Image.from_sitk(ref)
                K.ensure("sitk-values", E.bconst(tuple(via.shape) == tuple(im.shape) and bool(torch.equal(via.tensor().to(torch.float64), data.to(torch.float64)))), text=Q18S + " [values]")
                same_grid(K, "sitk-grid", via.grid(), g, Q18S)
            # SimpleITK-written file read by the library
            path2 = os.path.join(d, "ref" + ext)
            try:
                sitk.WriteImage(im.sitk(), path2, compress)
                ok = True
            except Exception as ex:  # noqa: BLE001
                ok = False
                K.note(f"SimpleITK cannot write {ext} for this configuration: {ex}")
            if ok:
                back2 = K.call(Image.read, path2)
                if K.ensure_returns(back2, text=Q18S + " [SimpleITK-written file read by the library]"):
                    K.ensure("from-sitk-values", E.bconst(tuple(back2.shape) == tuple(im.shape) and bool(torch.equal(back2.tensor().to(torch.float64), data.to(torch.float64)))), text=Q18S + " [values]")
                    same_grid(K, "from-sitk-grid", back2.grid(), g, Q18S)
        finally:
            shutil.rmtree(d, ignore_errors=True)


@register
class FlowFileRoundTrip:
    target = "deepali.data.flow:FlowField.write"
    properties = ("C18",)
    symbolic = False
    n_bounded = {"quick": 1, "thorough": 4}
    tol = 1e-4

    def cases(self, tier):
        for ext in (".mha", ".nii.gz", ".nrrd"):
            for D in (2, 3):
                for axes in ("grid", "cube", "cube_corners", "world"):
                    yield {"format": ext, "D": D, "axes": axes}

    def run(self, case, K):
        from deepali.core.grid import Axes
        from deepali.data import FlowField

        D, ext = case["D"], case["format"]
        size = tuple(K.rng.randint(3, 5) for _ in range(D))
        g = seeded_grid(K, D, size)
        gen = torch.Generator().manual_seed(K.rng.randint(0, 1 << 30))
        K.env["seed"] = gen.initial_seed()
        data = torch.randn((D,) + size[::-1], generator=gen)
        f = FlowField(data, g, Axes(case["axes"]))
        d = scratch_dir()
        try:
            path = os.path.join(d, "flow" + ext)
            w = K.call(f.write, path)
            if not K.ensure_returns(w, text=Q18F + f" [write {ext}]"):
                return
            stored = K.call(FlowField.read, path)
            if K.ensure_returns(stored, text=Q18F + f" [read {ext}]"):
                K.ensure("stored-world", E.bconst(stored.axes() == Axes.WORLD), text=Q18F + " [stored with world-space vectors]")
                K.ensure_eq("world-vectors", stored.tensor(), f.axes(Axes.WORLD).tensor().numpy(), text=Q18F)
                back = stored.axes(Axes(case["axes"]))
                K.ensure_eq("original-representation", back.tensor(), data.numpy(), text=Q18F + " [returns to its original representation]")
                same_grid(K, "grid", stored.grid(), g, Q18)
            # the in-memory SimpleITK conversions follow the same convention: sitk() stores world vectors, from_sitk()
            # reads them as world vectors (for whatever representation the field is converted back to afterwards)
            im = K.call(f.sitk)
            if K.ensure_returns(im, text=Q18F + " [FlowField.sitk()]"):
                via = K.call(FlowField.from_sitk, im)
                if K.ensure_returns(via, text=Q18F + " [FlowField.from_sitk()]"):
                    K.ensure_eq("sitk-original-representation", via.axes(Axes(case["axes"])).tensor(), data.numpy(),
                                text=Q18F + " [sitk() / from_sitk(): returns to its original representation]")
                    same_grid(K, "sitk-flow-grid", via.grid(), g, Q18S)
            try:
                import SimpleITK as sitk

                raw = sitk.ReadImage(path)
            except Exception as ex:  # noqa: BLE001
                raw = Raised(ex, "", "SimpleITK.ReadImage")
            if K.ensure_returns(raw, text=Q18S + " [flow file read by SimpleITK]"):
                via2 = K.call(FlowField.from_sitk, raw)
                if K.ensure_returns(via2):
                    K.ensure_eq("file-via-sitk", via2.axes(Axes(case["axes"])).tensor(), data.numpy(), text=Q18S + " [flow file read by SimpleITK and converted with from_sitk()]")
        finally:
            shutil.rmtree(d, ignore_errors=True)
