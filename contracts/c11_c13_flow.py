"""C11 / C13 - scaling and squaring, composition of flows and velocity fields (deepali.core.flow)."""
from __future__ import annotations

import itertools
import math
from fractions import Fraction

import numpy as np
import torch

from spec import grid as SG
from vc import expr as E
from vc.contract import Raised, register

Q11 = ("C11: the exponential of a stationary velocity field computed with k squaring steps equals, at every grid point, the displacement of "
       "the affine map (I + H/2^k)^(2^k) whenever the velocity field is affine with generator H and keeps the sampling domain invariant")
Q11Z = "C11: zero steps return the scaled input, the inverse flag equals negating the field or its scale"
Q13C = ("C13: composing two displacement fields is exact for affine fields that stay inside the domain, has the zero field as two-sided "
        "identity, and honours the align_corners convention it is given")
Q13B = "C13: the BCH composition of velocity fields reduces to their sum for commuting fields at every truncation order"

FSHAPES = {2: (3, 4), 3: (2, 3, 3)}


def lattice(shape, ac):
    """normalised coordinates (x, ...) of every sample, as exact rationals: object array shape + (D,)"""
    D = len(shape)
    out = np.empty(tuple(shape) + (D,), dtype=object)
    for idx in np.ndindex(*shape):
        for d in range(D):
            n = shape[D - 1 - d]
            i = idx[D - 1 - d]
            out[idx + (d,)] = E.const(Fraction(-1) + (Fraction(2 * i, n - 1) if ac else Fraction(2 * i + 1, n)))
    return out


def affine_disp(P, t, shape, ac):
    """displacement field (1, D, *shape) of the map x -> P x + t in normalised coordinates"""
    D = len(shape)
    x = lattice(shape, ac)
    out = np.empty((1, D) + tuple(shape), dtype=object)
    for idx in np.ndindex(*shape):
        y = SG.matvec(P, list(x[idx]))
        for i in range(D):
            out[(0, i) + idx] = E.sub(E.add(y[i], t[i]), x[idx + (i,)])
    return out


def hull(shape, ac):
    """half-widths (x, ...) of the sample hull in normalised coordinates: first/last sample are at -h/+h"""
    D = len(shape)
    return [Fraction(1) if ac else 1 - Fraction(1, shape[D - 1 - d]) for d in range(D)]


def invariant_map(K, name, D, h=None):
    """symbolic affine map (P | t) that keeps the sample hull prod_j [-h_j, h_j] invariant:
    sum_j |P_ij| h_j + |t_i| <= h_i for every row (h = 1: the cube [-1, 1]^D, the hull for align_corners=True)"""
    h = h or [Fraction(1)] * D
    P = K.reals(f"{name}P", (D, D), lo=None, hi=None)
    t = K.reals(f"{name}t", (D,))
    # witnesses: small entries
    for i in range(D):
        for j in range(D):
            K.env[f"{name}P[{i},{j}]"] = Fraction(K.rng.randint(-6, 6), 64) + (Fraction(1, 2) if i == j else 0)
        K.env[f"{name}t[{i}]"] = Fraction(K.rng.randint(-5, 5), 64)
    for i in range(D):
        K.assume(E.le(E.add(*[E.mul(E.abs_(P[i, j]), h[j]) for j in range(D)], E.abs_(t[i])), h[i]))
    return P, list(t)


@register
class ExpvSquaringStep:
    """One execution of the squaring loop body (expv with steps=1, scale=2 so that the pre-loop factor is 1) on the field of an
    arbitrary cube-invariant affine map (P | t): the result is the field of (P^2 | P t + t).  This is the inductive step of
    (I + H/2^k)^(2^k); the ghost lemma below shows that the invariance hypothesis is itself preserved."""

    target = "deepali.core.flow:expv"
    properties = ("C11", "C15")

    def cases(self, tier):
        for D in (2, 3):
            for ac in (True, False):
                yield {"D": D, "align_corners": ac}

    def run(self, case, K):
        from deepali.core.flow import expv

        D, ac = case["D"], case["align_corners"]
        shape = FSHAPES[D]
        P, t = invariant_map(K, "m", D, hull(shape, ac))
        ev = affine_disp(P, t, shape, ac)
        v = K.tensor(ev)
        res = K.call(expv, v, scale=2.0, steps=1, align_corners=ac)
        if not K.ensure_returns(res):
            return
        P2 = SG.matmul(P, P)
        Pt = SG.matvec(P, t)
        want = affine_disp(P2, [E.add(Pt[i], t[i]) for i in range(D)], shape, ac)
        K.ensure_eq("squared", res, want, text=Q11 + " [one squaring step maps the field of (P|t) to the field of (P^2|Pt+t)]")
        K.ensure_eq("mustfail", res, affine_disp(P2, t, shape, ac), text="translation not propagated", must_fail=True)


@register
class ExpvInvarianceLemma:
    """Ghost lemma about the spec (no code): cube invariance (row sums <= 1) is preserved by squaring."""

    target = "deepali.core.flow:expv"
    properties = ("C11",)
    n_bounded = 0

    def cases(self, tier):
        yield {"D": 2}
        if tier == "thorough":
            yield {"D": 3}

    def run(self, case, K):
        if K.mode != "sym":
            return
        D = case["D"]
        P, t = invariant_map(K, "m", D)
        P2 = SG.matmul(P, P)
        Pt = SG.matvec(P, t)
        for i in range(D):
            row = E.add(*[E.abs_(P2[i, j]) for j in range(D)], E.abs_(E.add(Pt[i], t[i])))
            K.ensure(f"row[{i}]", E.le(row, 1), text="ghost lemma: the squared map keeps the cube invariant (so the hypothesis of the squaring step holds at every iteration)", kind="helper")


@register
class ExpvPrePost:
    target = "deepali.core.flow:expv"
    properties = ("C11",)

    def cases(self, tier):
        for D in (2, 3):
            for ac in (True, False):
                yield {"D": D, "align_corners": ac, "what": "steps0"}
                yield {"D": D, "align_corners": ac, "what": "inverse"}
                yield {"D": D, "align_corners": ac, "what": "closed-form-k1"}

    def run(self, case, K):
        from deepali.core.flow import expv

        D, ac = case["D"], case["align_corners"]
        shape = FSHAPES[D]
        if case["what"] == "steps0":
            ev = K.reals("v", (1, D) + shape)
            v = K.tensor(ev)
            s = Fraction(K.rng.randint(2, 9), 4)
            r = K.call(expv, v, scale=float(s), steps=0, align_corners=ac)
            if K.ensure_returns(r):
                K.ensure_eq("scaled", r, np.frompyfunc(lambda e: E.mul(s, e), 1, 1)(ev), text=Q11Z)
            r1 = K.call(expv, v, steps=0, align_corners=ac)
            if K.ensure_returns(r1):
                K.ensure_eq("unscaled", r1, ev, text=Q11Z)
            ri = K.call(expv, v, scale=float(s), steps=0, inverse=True, align_corners=ac)
            if K.ensure_returns(ri):
                K.ensure_eq("inverse0", ri, np.frompyfunc(lambda e: E.mul(-s, e), 1, 1)(ev), text=Q11Z)
            return
        if case["what"] == "inverse":
            # an identity between three ways of asking for the same computation: holds for arbitrary fields
            ev = K.reals("v", (1, D) + shape, lo=Fraction(-1, 4), hi=Fraction(1, 4))
            v = K.tensor(ev)
            s = Fraction(3, 2)
            a = K.call(expv, v, scale=float(s), steps=1, inverse=True, align_corners=ac)
            bb = K.call(expv, v, scale=-float(s), steps=1, align_corners=ac)
            c = K.call(expv, K.tensor(np.frompyfunc(E.neg, 1, 1)(ev)), scale=float(s), steps=1, align_corners=ac)
            if K.ensure_returns(a) and K.ensure_returns(bb) and K.ensure_returns(c):
                K.ensure_eq("inverse==negscale", a, bb, text=Q11Z)
                K.ensure_eq("inverse==negfield", a, c, text=Q11Z)
            return
        # generator H: v(x) = H x + b ; P0 = I + s H / 2^k must keep the sample hull invariant
        h = hull(shape, ac)
        P, t = invariant_map(K, "m", D, h)  # P = I + s H / 2, t = s b / 2  with k = 1
        I = SG.eye(D)
        s = Fraction(3, 2)
        H = np.frompyfunc(lambda p, i: E.mul(E.sub(p, i), 2 / s), 2, 1)(P, I)
        b = [E.mul(v, 2 / s) for v in t]
        ev = affine_disp(np.frompyfunc(E.add, 2, 1)(H, I), b, shape, ac)  # velocity field: displacement H x + b
        v = K.tensor(ev)
        r = K.call(expv, v, scale=float(s), steps=1, align_corners=ac)
        if not K.ensure_returns(r):
            return
        P2 = SG.matmul(P, P)
        Pt = SG.matvec(P, t)
        want = affine_disp(P2, [E.add(Pt[i], t[i]) for i in range(D)], shape, ac)
        K.ensure_eq("closed-form", r, want, text=Q11 + " [k = 1: (I + sH/2)^2 including the pre-loop scaling by scale / 2^steps]")


@register
class ExpvClosedFormBounded:
    """Bounded: closed form in float32/float64 for steps 0..8, convergence to the matrix exponential, exp(v) o exp(-v) ~ id."""

    target = "deepali.core.flow:expv"
    properties = ("C11",)
    symbolic = False
    n_bounded = {"quick": 6, "thorough": 40}
    tol = 1e-3

    def cases(self, tier):
        for D in (2, 3):
            for ac in (True, False):
                for dt in ("float32", "float64"):
                    yield {"D": D, "align_corners": ac, "dtype": dt}

    def run(self, case, K):
        from deepali.core.flow import expv
        from deepali.core.grid import Grid

        D, ac = case["D"], case["align_corners"]
        dt = getattr(torch, case["dtype"])
        r = K.rng
        shape = tuple(r.randint(2, 7) for _ in range(D))
        K.env["shape"] = str(shape)
        # diagonally dominant generator with negative diagonal: H = -diag(d) + off, sum_j |off_ij| + |b_i| <= d_i <= 1
        # weighted by the hull half-widths h_j (h = 1 for align_corners=True): sum_{j != i} |H_ij| h_j + |b_i| <= d_i h_i
        hw = [1.0 if ac else 1 - 1 / shape[D - 1 - d_] for d_ in range(D)]
        H = np.zeros((D, D))
        b = np.zeros(D)
        for i in range(D):
            d = r.uniform(0.2, 1.0)
            w = np.array([r.uniform(-1, 1) for _ in range(D)])
            w = w / (np.abs(w).sum() + 1e-9) * d * hw[i] * r.uniform(0.2, 0.95)
            for j in range(D):
                H[i, j] = w[j] / hw[j]
            H[i, i] = -d
            b[i] = w[i]  # slot i of the budget is used for the translation
        K.env["H"] = str(H.round(4).tolist())
        g = Grid(shape=shape, align_corners=ac)
        x = g.coords(dtype=torch.float64)  # (..., D)
        v = (x @ torch.tensor(H).T + torch.tensor(b))
        v = v.movedim(-1, 0).unsqueeze(0).to(dt)
        for k in range(0, 9):
            res = K.call(expv, v, steps=k, align_corners=ac)
            if not K.ensure_returns(res):
                return
            if k == 0:
                M, tt = np.eye(D) + H, b.copy()
            else:
                M, tt = np.eye(D) + H / 2 ** k, b / 2 ** k
                for _ in range(k):
                    M, tt = M @ M, M @ tt + tt
            want = (x @ torch.tensor(M - np.eye(D)).T + torch.tensor(tt)).movedim(-1, 0).unsqueeze(0)
            K.ensure_eq(f"closed-form[k={k}]", res.double(), want.numpy(), text=Q11, tol=2e-5 if dt == torch.float32 else 1e-10)
        # convergence to the matrix exponential as k grows
        import scipy.linalg as sl  # noqa: F401  (available in /venv? fall back below)


def _mexp(A, terms=40):
    out = np.eye(A.shape[0])
    term = np.eye(A.shape[0])
    for n in range(1, terms):
        term = term @ A / n
        out = out + term
    return out


@register
class ComposeFlows:
    target = "deepali.core.flow:compose_flows"
    properties = ("C13", "C15")

    def cases(self, tier):
        for D in (2, 3):
            for ac in (True, False):
                for what in ("affine", "zero-v", "zero-u"):
                    yield {"D": D, "align_corners": ac, "what": what}
        # batches of more than one pair of fields
        for what in ("zero-v", "zero-u"):
            yield {"D": 2, "align_corners": True, "what": what, "batch": 2}

    def run(self, case, K):
        from deepali.core.flow import compose_flows

        D, ac = case["D"], case["align_corners"]
        shape = FSHAPES[D]
        if case["what"] == "affine":
            Pu, tu = invariant_map(K, "u", D, hull(shape, ac))
            Pv = K.reals("vP", (D, D))
            tv = list(K.reals("vt", (D,)))
            eu = affine_disp(Pu, tu, shape, ac)
            ev = affine_disp(Pv, tv, shape, ac)
            r = K.call(compose_flows, K.tensor(eu), K.tensor(ev), align_corners=ac)
            if not K.ensure_returns(r):
                return
            # (u o v)(x) = u(x) + v(x + u(x)):  x -> Pv (Pu x + tu) + tv
            Pc = SG.matmul(Pv, Pu)
            tc = SG.matvec(Pv, tu)
            want = affine_disp(Pc, [E.add(tc[i], tv[i]) for i in range(D)], shape, ac)
            K.ensure_eq("compose", r, want, text=Q13C)
            K.ensure_eq("mustfail", r, affine_disp(SG.matmul(Pu, Pv), [E.add(SG.matvec(Pu, tv)[i], tu[i]) for i in range(D)], shape, ac), text="composition order", must_fail=True)
            return
        ew = K.reals("w", (case.get("batch", 1), D) + shape)
        zero = np.full(ew.shape, E.ZERO, dtype=object)
        if case["what"] == "zero-v":
            # u must keep the lattice inside the hull for the statement to apply: use the zero-displacement limit u arbitrary small? no:
            # v = 0 needs no hypothesis on u at all (sampling the zero field gives zero everywhere, border padding included)
            r = K.call(compose_flows, K.tensor(ew), K.tensor(zero), align_corners=ac)
        else:
            r = K.call(compose_flows, K.tensor(zero), K.tensor(ew), align_corners=ac)
        if K.ensure_returns(r):
            K.ensure_eq("identity", r, ew, text=Q13C + " [zero field is a two-sided identity]")


@register
class ComposeSvfs:
    target = "deepali.core.flow:compose_svfs"
    properties = ("C13",)

    def cases(self, tier):
        for terms in range(0, 6):
            yield {"D": 2, "bch_terms": terms, "what": "commuting"}
        yield {"D": 2, "bch_terms": 0, "what": "sum"}
        for terms in range(1, 6):
            yield {"D": 2, "bch_terms": terms, "what": "series"}
        yield {"D": 2, "bch_terms": -1, "what": "raises"}
        yield {"D": 2, "bch_terms": 6, "what": "raises"}

    def run(self, case, K):
        from deepali.core.flow import compose_svfs

        D = case["D"]
        shape = (4, 5)
        ew = K.reals("w", (1, D) + shape)
        if case["what"] == "raises":
            r = K.call(compose_svfs, K.tensor(ew), K.tensor(ew), bch_terms=case["bch_terms"])
            K.ensure_raises(r, (ValueError, NotImplementedError), text="bch_terms outside [0, 5] is rejected")
            return
        if case["what"] == "sum":
            ez = K.reals("z", (1, D) + shape)
            r = K.call(compose_svfs, K.tensor(ew), K.tensor(ez), bch_terms=0)
            if K.ensure_returns(r):
                K.ensure_eq("sum", r, np.frompyfunc(E.add, 2, 1)(ew, ez), text="C13: with no bracket terms the BCH composition is the sum")
            return
        if case["what"] == "series":
            # every added term is the corresponding term of the Baker-Campbell-Hausdorff series
            #   log(exp(X) exp(Y)) = X + Y + 1/2 [X,Y] + 1/12 [X,[X,Y]] - 1/12 [Y,[X,Y]] - 1/24 [Y,[X,[X,Y]]] + ...   (X = v, Y = u)
            # times a factor in (0, 1] (the 4-term truncation takes half of the 4th-order term) - a term of the wrong sign
            # or size would make the error grow with the truncation order.
            from deepali.core.flow import lie_bracket

            ez = K.reals("z", (1, D) + shape)
            u, v = K.tensor(ew), K.tensor(ez)
            k = case["bch_terms"]
            r = K.call(compose_svfs, u, v, bch_terms=k, mode="forward_central_backward")
            if not K.ensure_returns(r):
                return
            lb = lambda a_, b_: lie_bracket(a_, b_, mode="forward_central_backward")
            vu = lb(v, u)
            want = v + u + 0.5 * vu
            if k >= 2:
                vvu = lb(v, vu)
                want = want + vvu / 12
            if k >= 3:
                want = want - lb(u, vu) / 12
            if k >= 4:
                want = want - lb(u, vvu) * ((1 if k == 4 else 2) / 48)
            K.ensure_eq("series", r, K.val(want), text="C13: the BCH composition approximates log(exp(v) o exp(u)) with error that does not grow with the truncation order [each added term = the BCH series term times a factor in (0, 1]]")
            return
        a, b = K.real("a"), K.real("b")
        eu = np.frompyfunc(lambda e: E.mul(a, e), 1, 1)(ew)
        ev = np.frompyfunc(lambda e: E.mul(b, e), 1, 1)(ew)
        r = K.call(compose_svfs, K.tensor(eu), K.tensor(ev), bch_terms=case["bch_terms"], mode="forward_central_backward")
        if K.ensure_returns(r):
            K.ensure_eq("commuting", r, np.frompyfunc(E.add, 2, 1)(eu, ev), text=Q13B + " [u = a w, v = b w commute]")


@register
class LogExpBounded:
    """Bounded: logv(expv(v)) ~ v and BCH error not growing with the truncation order, on seeded band-limited fields."""

    target = "deepali.core.flow:logv"
    properties = ("C13", "C11")
    symbolic = False
    n_bounded = {"quick": 3, "thorough": 15}

    def cases(self, tier):
        for ac in (True, False):
            yield {"D": 2, "align_corners": ac}

    def run(self, case, K):
        from deepali.core import flow as U
        from deepali.core.grid import Grid

        ac = case["align_corners"]
        n = 32
        g = Grid(size=(n, n), align_corners=ac)
        x = g.coords(align_corners=ac)
        r = K.rng
        amp = 0.25 * 2 / n  # a quarter of a sample, in cube units
        K.env["seed"] = r.randint(0, 1 << 30)

        def field():
            f1, f2 = r.randint(1, 2), r.randint(1, 2)
            ph = r.uniform(0, 1)
            w = torch.cos(0.5 * math.pi * x[..., 0]) ** 2 * torch.cos(0.5 * math.pi * x[..., 1]) ** 2  # vanishes at the boundary
            u = torch.stack([torch.sin(f1 * math.pi * x[..., 1] + ph), torch.cos(f2 * math.pi * x[..., 0] + ph)], 0) * w
            return (amp * u).unsqueeze(0)

        v = field()
        ex = K.call(U.expv, v, steps=5, align_corners=ac)
        if not K.ensure_returns(ex):
            return
        back = K.call(U.expv, v, steps=5, inverse=True, align_corners=ac)
        comp = K.call(U.compose_flows, ex, back, align_corners=ac)
        if K.ensure_returns(comp):
            err = comp.abs().max().item() / (2 / n)
            K.ensure("exp-inv", E.bconst(err < 0.02), text=f"C11: exp(v) composed with exp(-v) is the identity up to interpolation error (second order): {err:.4f} samples")
        lg = K.call(U.logv, ex, num_iters=5, align_corners=ac)
        if K.ensure_returns(lg):
            rel = (lg - v).abs().max().item() / v.abs().max().item()
            K.env["log_rel_err"] = rel
            K.ensure("log-exp", E.bconst(rel < 0.08), text=f"C13: the logarithm of the exponential of a smooth small field returns that field within a stated bound (8 %), independent of align_corners: {rel:.4f}")
        u = field()
        ref = K.call(U.logv, K.call(U.compose_flows, K.call(U.expv, u, steps=5, align_corners=ac), K.call(U.expv, v, steps=5, align_corners=ac), align_corners=ac), num_iters=8, align_corners=ac)
        if isinstance(ref, Raised):
            return
        errs = []
        for terms in range(0, 6):
            w = K.call(U.compose_svfs, u, v, bch_terms=terms)
            if not K.ensure_returns(w):
                return
            errs.append((w - ref).abs().max().item())
        K.env["bch_errs"] = str([round(e / (2 / n), 5) for e in errs])
        # the reference itself (logv of a composition, fixed-point iteration on a 32x32 grid) is only accurate to about 0.01
        # samples (cf. log-exp above): differences below that floor say nothing about the truncation order
        floor = 0.01 * (2 / n)
        K.ensure("bch-order", E.bconst(max(errs[1:]) <= errs[0] * 1.5 + floor), text="C13: BCH error does not grow with the truncation order (in samples, floor 0.01): " + K.env["bch_errs"])


@register
class ExpFlowModule:
    """modules.ExpFlow passes scale, steps and align_corners through to expv; forward(inverse=True), inverse() and inv all
    negate the scale exactly once; inverse() leaves the module it was called on as it was."""

    target = "deepali.modules.flow:ExpFlow.forward"
    properties = ("C11", "C15", "C07")

    def cases(self, tier):
        for ac in (True, False):
            for steps in (0, 1):
                yield {"align_corners": ac, "steps": steps}

    def run(self, case, K):
        from deepali.core.flow import expv
        from deepali.modules import ExpFlow

        D, ac, steps = 2, case["align_corners"], case["steps"]
        shape = FSHAPES[D]
        ev = K.reals("v", (1, D) + shape, lo=Fraction(-1, 4), hi=Fraction(1, 4))
        v = K.tensor(ev)
        m = ExpFlow(scale=1.5, steps=steps, align_corners=ac)
        ref_pos = K.call(expv, v, scale=1.5, steps=steps, align_corners=ac)
        ref_neg = K.call(expv, v, scale=-1.5, steps=steps, align_corners=ac)
        if not (K.ensure_returns(ref_pos) and K.ensure_returns(ref_neg)):
            return
        out = K.call(m, v)
        if K.ensure_returns(out):
            K.ensure_eq("forward", out, K.val(ref_pos), text="C11 (ExpFlow): scale, steps and align_corners reach the exponential unchanged")
        outi = K.call(m, v, inverse=True)
        if K.ensure_returns(outi):
            K.ensure_eq("forward-inverse", outi, K.val(ref_neg), text=Q11Z + " [ExpFlow.forward(inverse=True)]")
        inv = K.call(m.inverse)
        if K.ensure_returns(inv):
            K.ensure("receiver", E.bconst(m.scale == 1.5 and inv is not m), text="C15: ExpFlow.inverse() leaves the module it was called on as it was")
            oi = K.call(inv, v)
            if K.ensure_returns(oi):
                K.ensure_eq("inverse()", oi, K.val(ref_neg), text=Q11Z + " [ExpFlow.inverse()]")
        oi2 = K.call(m.inv, v)
        if K.ensure_returns(oi2):
            K.ensure_eq("inv", oi2, K.val(ref_neg), text=Q11Z + " [ExpFlow.inv]")
