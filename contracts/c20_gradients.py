"""C20 - gradients reaching parameters and inputs are the true derivatives.  Bounded only: autograd against central finite
differences on the real code, at seeded generic inputs; plus graph connectivity (a gradient exists and is finite)."""
from __future__ import annotations

import math
from fractions import Fraction

import numpy as np
import torch

from vc import expr as E
from vc.contract import Raised, register

Q20 = ("C20: every operation meant to be optimised through is differentiable with finite gradients, and the gradient autograd returns "
       "agrees with a central finite-difference estimate of the same function at generic (non-kink) inputs")


def _steps(out_dtype):
    # central differences: truncation error ~ h^2, rounding error ~ eps/h where eps is the precision of the *least* precise
    # intermediate (several functions compute sampling coordinates in float32 whatever the input dtype); a kink inside
    # [x-hd, x+hd] spoils one step size but not a ten times smaller one; a wrong gradient disagrees at every step size
    # -> a direction passes if ANY step size of the ladder agrees to 1 %
    if out_dtype == torch.float64:
        return (1e-3, 1e-4, 1e-5, 1e-6), 1e-2, torch.finfo(torch.float64).eps
    return (1e-2, 3e-3, 1e-3), 2e-2, torch.finfo(torch.float32).eps


def compare(K, tag, what, an, fds, floor, noise_of):
    """fds: {h: finite difference}; passes if one step size agrees.  floor: typical size of a directional derivative
    (|grad| / sqrt(n)) so that a direction nearly orthogonal to the gradient is not judged by relative error"""
    K.checked += 1
    worst = None
    for h, (fd, rtol) in fds.items():
        scale = max(abs(an), abs(fd), floor, 1e-12)
        err = abs(an - fd)
        if err <= rtol * scale + noise_of(h):
            return True
        worst = fd if worst is None else worst
    K.failures.append({"clause": Q20 + f" [{tag}: {what}]", "kind": "property", "tag": tag, "autograd": an,
                       "finite_difference": {str(h): v[0] for h, v in fds.items()}})
    return False


def directional_check(K, tag, f, inputs, dtype=torch.float64, n_dirs=2):
    """<grad f, d> vs (f(x + h d) - f(x - h d)) / 2h for random directions d; f returns a tensor (contracted with fixed weights)"""
    gen = torch.Generator().manual_seed(K.rng.randint(0, 1 << 30))
    xs = [x.detach().clone().to(dtype).requires_grad_(True) for x in inputs]
    try:
        out = f(*xs)
    except Exception as ex:  # noqa: BLE001
        K.checked += 1
        K.failures.append({"clause": Q20 + f" [{tag}: evaluation raised {type(ex).__name__}: {ex}]", "kind": "property", "tag": tag})
        return
    hs, rtol, eps = _steps(out.dtype)
    w = torch.randn(out.shape, generator=gen, dtype=torch.float64).to(out.dtype) if out.ndim else torch.ones((), dtype=out.dtype)
    scalar = (out * w).sum()
    mag = float((out.detach() * w).abs().sum()) / max(1.0, math.sqrt(out.numel()))
    try:
        grads = torch.autograd.grad(scalar, xs, allow_unused=True)
    except Exception as ex:  # noqa: BLE001
        K.checked += 1
        K.failures.append({"clause": Q20 + f" [{tag}: backward raised {type(ex).__name__}: {str(ex)[:160]}]", "kind": "property", "tag": tag})
        return
    for i, (x, g) in enumerate(zip(xs, grads)):
        K.checked += 1
        if g is None:
            K.failures.append({"clause": Q20 + f" [{tag}: no gradient reaches input {i} (graph break)]", "kind": "property", "tag": tag})
            continue
        if not torch.isfinite(g).all():
            K.failures.append({"clause": Q20 + f" [{tag}: non-finite gradient for input {i}]", "kind": "property", "tag": tag})
            continue
        for k in range(n_dirs):
            d = torch.randn(x.shape, generator=gen, dtype=dtype)
            d = d / d.norm().clamp(min=1e-12)
            fds = {}
            for h in hs:
                with torch.no_grad():
                    plus = [y.detach().clone() for y in xs]
                    minus = [y.detach().clone() for y in xs]
                    plus[i] = plus[i] + h * d
                    minus[i] = minus[i] - h * d
                    fds[h] = ((((f(*plus) * w).sum().double() - (f(*minus) * w).sum().double()) / (2 * h)).item(), rtol)
            an = (g * d).sum().item()
            if not compare(K, tag, f"input {i}", an, fds, float(g.norm()) / math.sqrt(g.numel()), lambda h: 16 * eps * max(mag, abs(float(scalar))) / h):
                break


def smooth_image(gen, shape, dtype):
    x = torch.randn(shape, generator=gen, dtype=dtype)
    return x


@register
class GradCheckFunctional:
    target = "deepali.core.flow:expv"
    properties = ("C20",)
    symbolic = False
    n_bounded = {"quick": 1, "thorough": 5}

    OPS = ("grid_sample-data", "grid_sample-coords", "grid_sample-coords-constant-padding", "sample_image-constant-padding", "warp_image", "sample_image", "expv", "compose_flows", "evaluate_cubic_bspline", "spatial_derivatives",
           "jacobian_det", "affine_flow", "euler_rotation_matrix", "quaternion_to_rotation_matrix", "grid.apply_transform", "homogeneous_transform")

    def cases(self, tier):
        for op in self.OPS:
            for D in (2, 3):
                yield {"op": op, "D": D}

    def run(self, case, K):
        from deepali.core import flow as UF
        from deepali.core import functional as U
        from deepali.core.grid import Axes, Grid

        D, op = case["D"], case["op"]
        gen = torch.Generator().manual_seed(K.rng.randint(0, 1 << 30))
        K.env["seed"] = gen.initial_seed()
        shape = (5, 6) if D == 2 else (4, 5, 4)
        dt = torch.float64
        g = Grid(shape=shape)
        img = torch.randn((1, 2) + shape, generator=gen, dtype=dt)
        # generic coordinates strictly inside cells (away from interpolation kinks)
        base = g.coords(dtype=dt).unsqueeze(0)
        coords = (base * 0.8 + 0.013).contiguous()
        flow = 0.1 * torch.randn((1, D) + shape, generator=gen, dtype=dt)
        if op == "grid_sample-data":
            directional_check(K, op, lambda x: U.grid_sample(x, coords), [img], dt)
        elif op == "grid_sample-coords":
            directional_check(K, op, lambda c: U.grid_sample(img, c), [coords], dt)
        elif op == "grid_sample-coords-constant-padding":
            # sampling points partly outside the image domain with a scalar padding value: the blend with the constant
            # depends on the coordinates too
            wide = (base * 1.12 + 0.013).contiguous()
            directional_check(K, op, lambda c: U.grid_sample(img, c, padding=1.5), [wide], dt)
            directional_check(K, op + "[data]", lambda x: U.grid_sample(x, wide, padding=1.5), [img], dt)
        elif op == "sample_image-constant-padding":
            pts = (torch.rand((1, 9, D), generator=gen, dtype=dt) - 0.5) * 2.3
            directional_check(K, op, lambda x, p: U.sample_image(x, p, padding=-0.75), [img, pts], dt)
        elif op == "warp_image":
            directional_check(K, op, lambda x, u: U.warp_image(x, coords, flow=u.movedim(1, -1) * 0.3), [img, flow], dt)
        elif op == "sample_image":
            pts = (torch.rand((1, 7, D), generator=gen, dtype=dt) - 0.5) * 1.5
            directional_check(K, op, lambda x, p: U.sample_image(x, p), [img, pts], dt)
        elif op == "expv":
            directional_check(K, op, lambda v: UF.expv(v, steps=3), [flow * 0.3], dt)
        elif op == "compose_flows":
            directional_check(K, op, lambda u, v: UF.compose_flows(u, v), [flow * 0.3, 0.1 * torch.randn((1, D) + shape, generator=gen, dtype=dt)], dt)
        elif op == "evaluate_cubic_bspline":
            c = torch.randn((1, D) + tuple(5 for _ in range(D)), generator=gen, dtype=dt)
            directional_check(K, op, lambda x: U.evaluate_cubic_bspline(x, stride=2), [c], dt)
            directional_check(K, op + "-derivative", lambda x: U.evaluate_cubic_bspline(x, stride=2, derivative=1), [c], dt)
        elif op == "spatial_derivatives":
            for mode in ("central", "forward_central_backward", "sobel", "bspline"):
                directional_check(K, f"{op}[{mode}]", lambda x, mode=mode: torch.cat(list(U.spatial_derivatives(x, mode=mode).values()), 1), [img], dt)
        elif op == "jacobian_det":
            directional_check(K, op, lambda u: UF.jacobian_det(u), [flow], dt)
        elif op == "affine_flow":
            m = torch.eye(D, D + 1, dtype=dt).unsqueeze(0) + 0.1 * torch.randn((1, D, D + 1), generator=gen, dtype=dt)
            directional_check(K, op, lambda a: UF.affine_flow(a, g), [m], dt)
        elif op == "euler_rotation_matrix":
            ang = torch.randn((2, 3 if D == 3 else 1), generator=gen, dtype=dt)
            orders = ("XZX", "XYX", "YXY", "YZY", "ZYZ", "ZXZ", "XZY", "XYZ", "YXZ", "YZX", "ZYX", "ZXY")
            for order in (orders if D == 3 else (None,)):
                directional_check(K, f"{op}[{order}]", lambda a, order=order: U.euler_rotation_matrix(a, order=order), [ang], dt)
        elif op == "quaternion_to_rotation_matrix":
            if D == 3:
                q = torch.randn((2, 4), generator=gen, dtype=dt)
                directional_check(K, op, lambda x: U.quaternion_to_rotation_matrix(x), [q], dt)
        elif op == "grid.apply_transform":
            gg = Grid(size=shape[::-1], spacing=[0.7 + 0.1 * i for i in range(D)], center=[1.0] * D)
            pts = torch.randn((3, D), generator=gen, dtype=dt)
            for a, b in (("world", "cube_corners"), ("cube", "world"), ("grid", "cube")):
                directional_check(K, f"{op}[{a}->{b},decimals=None]", lambda p, a=a, b=b: gg.apply_transform(p, Axes(a), Axes(b), decimals=None), [pts], dt)
        elif op == "homogeneous_transform":
            m = torch.randn((2, D, D + 1), generator=gen, dtype=dt)
            pts = torch.randn((2, 4, D), generator=gen, dtype=dt)
            directional_check(K, op, lambda a, p: U.homogeneous_transform(a, p), [m, pts], dt)


@register
class GradCheckLosses:
    target = "deepali.losses.functional:ssd_loss"
    properties = ("C20",)
    symbolic = False
    n_bounded = {"quick": 1, "thorough": 5}

    LOSSES = ("ClosestPointDistance", "LandmarkPointDistance", "mse_loss", "ssd_loss", "huber_loss", "smooth_l1_loss", "ncc_loss", "lcc_loss", "wlcc_loss", "mi_loss", "nmi_loss", "dice_loss", "tversky_loss",
              "grad_loss", "bending_loss", "curvature_loss", "diffusion_loss", "divergence_loss", "elasticity_loss", "total_variation_loss",
              "bspline_bending_loss", "inverse_consistency_loss")

    def cases(self, tier):
        for name in self.LOSSES:
            for D in (2, 3):
                if tier == "quick" and D == 3 and name in ("mi_loss", "nmi_loss", "wlcc_loss"):
                    continue
                yield {"loss": name, "D": D}

    def run(self, case, K):
        import deepali.losses.functional as L

        D, name = case["D"], case["loss"]
        gen = torch.Generator().manual_seed(K.rng.randint(0, 1 << 30))
        K.env["seed"] = gen.initial_seed()
        shape = (7, 8) if D == 2 else (6, 5, 6)
        dt = torch.float64
        if name in ("ClosestPointDistance", "LandmarkPointDistance"):
            # point set distances (modules; they cast to float32): every point set receives its gradient; points are kept
            # 0.2-0.4 apart from their matches so that no closest-point assignment switches
            from deepali.losses.pointset import ClosestPointDistance, LandmarkPointDistance

            loss = ClosestPointDistance() if name == "ClosestPointDistance" else LandmarkPointDistance()
            base = torch.rand((2, 9, D), generator=gen) * 6
            x = base + 0.3 * torch.nn.functional.normalize(torch.randn((2, 9, D), generator=gen), dim=-1)
            y = base.clone()
            z = base + 0.25 * torch.nn.functional.normalize(torch.randn((2, 9, D), generator=gen), dim=-1)
            directional_check(K, name, lambda a, b: loss(a, b), [x, y], torch.float32)
            if name == "ClosestPointDistance":
                directional_check(K, name + "[two other sets]", lambda a, b, c: loss(a, b, c), [x, y, z], torch.float32)
            return
        fn = getattr(L, name)
        if name in ("mse_loss", "ssd_loss", "huber_loss", "smooth_l1_loss", "ncc_loss", "lcc_loss", "wlcc_loss", "mi_loss", "nmi_loss"):
            a = torch.rand((2, 1) + shape, generator=gen, dtype=dt)
            b = (0.5 * a + 0.5 * torch.rand((2, 1) + shape, generator=gen, dtype=dt))
            kw = {"kernel_size": 3} if "lcc" in name else {}
            if name in ("mi_loss", "nmi_loss"):
                # the loss as a function of the images for a given intensity range
                directional_check(K, name + "[vmin=0,vmax=1]", lambda x, y: fn(x, y, vmin=0.0, vmax=1.0), [a, b], dt)
                # default range: taken from the images themselves
                directional_check(K, name + "[default intensity range]", lambda x, y: fn(x, y), [a, b], dt)
            elif name == "wlcc_loss":
                m = torch.rand((2, 1) + shape, generator=gen, dtype=dt) * 0.5 + 0.5
                directional_check(K, name, lambda x, y: fn(x, y, mask=m, source_mask=m, **kw), [a, b], dt)
                # a foreground mask with background regions larger than the window (windows without any weight)
                fg = torch.zeros((2, 1) + shape, dtype=dt)
                fg[(slice(None), slice(None)) + tuple(slice(0, n // 2) for n in shape)] = 1
                directional_check(K, name + "[foreground mask]", lambda x, y: fn(x, y, mask=fg, **kw), [a, b], dt)
                directional_check(K, name + "[source and target masks]", lambda x, y: fn(x, y, source_mask=fg, target_mask=fg, **kw), [a, b], dt)
                directional_check(K, name + "[no mask]", lambda x, y: fn(x, y, **kw), [a, b], dt)
            else:
                directional_check(K, name, lambda x, y: fn(x, y, **kw), [a, b], dt)
        elif name in ("dice_loss", "tversky_loss"):
            p = torch.rand((2, 1) + shape, generator=gen, dtype=dt) * 0.8 + 0.1
            y = (torch.rand((2, 1) + shape, generator=gen) > 0.5).to(dt)
            directional_check(K, name, lambda x: fn(x, y), [p], dt)
        elif name == "inverse_consistency_loss":
            u = 0.05 * torch.randn((1, D) + shape, generator=gen, dtype=dt)
            v = -u + 0.01 * torch.randn((1, D) + shape, generator=gen, dtype=dt)
            directional_check(K, name, lambda x, y: fn(x, y), [u, v], dt)
        elif name == "bspline_bending_loss":
            c = 0.1 * torch.randn((1, D) + tuple(6 for _ in range(D)), generator=gen, dtype=dt)
            directional_check(K, name, lambda x: fn(x, stride=1), [c], dt)
        else:
            u = 0.1 * torch.randn((1, D) + shape, generator=gen, dtype=dt)
            kw = {"first_parameter": 1.0, "second_parameter": 2.0} if name == "elasticity_loss" else {}
            directional_check(K, name, lambda x: fn(x, **kw), [u], dt)


@register
class GradCheckTransforms:
    target = "deepali.spatial.base:SpatialTransform.forward"
    properties = ("C20",)
    symbolic = False
    n_bounded = {"quick": 1, "thorough": 4}

    MODELS = ("Translation", "EulerRotation", "QuaternionRotation", "IsotropicScaling", "AnisotropicScaling", "Shearing", "HomogeneousTransform",
              "RigidTransform", "AffineTransform", "FullAffineTransform", "DisplacementFieldTransform", "StationaryVelocityFieldTransform",
              "FreeFormDeformation", "StationaryVelocityFreeFormDeformation")

    def cases(self, tier):
        for name in self.MODELS:
            for D in (2, 3):
                if D == 2 and name == "QuaternionRotation":
                    continue
                for what in ("forward", "disp", "inverse", "warp", "points", "pointset", "pointset-other", "input-points"):
                    if what == "inverse" and name in ("DisplacementFieldTransform", "FreeFormDeformation"):
                        continue
                    yield {"model": name, "D": D, "what": what}

    def run(self, case, K):
        import deepali.spatial as sp
        from deepali.core.grid import Grid

        D, name, what = case["D"], case["model"], case["what"]
        gen = torch.Generator().manual_seed(K.rng.randint(0, 1 << 30))
        K.env["seed"] = gen.initial_seed()
        size = (8, 7) if D == 2 else (6, 5, 6)
        g = Grid(size=size, spacing=[1.0 + 0.2 * i for i in range(D)])
        # source image: a multilinear polynomial of the coordinates on a grid that extends well beyond the target grid.
        # Its (multi)linear interpolant is the polynomial itself, so the warped image is a smooth function of the
        # parameters (no interpolation kinks, no samples leaving the source domain) - inputs are generic by construction.
        gs = Grid(size=tuple(n + 8 for n in size), spacing=[1.0 + 0.2 * i for i in range(D)])
        xw = gs.coords(dtype=torch.float64)
        cs = [0.7, -0.4, 0.5]
        img = 0.3 + sum(cs[k] * xw[..., k] for k in range(D)) + 0.6 * xw[..., 0] * xw[..., 1]
        if D == 3:
            img = img - 0.3 * xw[..., 1] * xw[..., 2] + 0.2 * xw[..., 0] * xw[..., 2] + 0.45 * xw[..., 0] * xw[..., 1] * xw[..., 2]
        img = img.unsqueeze(0).unsqueeze(0)
        t = getattr(sp, name)(g).double()
        params = [p for p in t.parameters()]
        with torch.no_grad():
            for p in params:
                p.add_(0.05 * torch.randn(p.shape, generator=gen, dtype=p.dtype))
        pts = (torch.rand((1, 9, D), generator=gen, dtype=torch.float64) - 0.5) * 1.2

        g2 = Grid(size=tuple(n + 2 for n in size), spacing=[0.8 + 0.1 * i for i in range(D)], center=[0.3] * D)

        def evaluate(p=None):
            from deepali.core.grid import Axes

            p = pts if p is None else p
            if what == "points":
                t.update()  # points() does not run the update hook itself (unlike the module call / PointSetTransformer)
                return t.points(p, axes=Axes.CUBE_CORNERS, to_grid=g2, to_axes=Axes.GRID)
            if what in ("pointset", "input-points"):
                return sp.PointSetTransformer(t)(p)
            if what == "pointset-other":
                return sp.PointSetTransformer(t, axes=Axes.CUBE, to_grid=g2, to_axes=Axes.CUBE_CORNERS)(p)
            if what == "forward":
                return t(pts)
            if what == "disp":
                t.update()
                return t.disp()
            if what == "inverse":
                return t.inverse(update_buffers=False)(pts)
            # border padding: zero padding makes the warped image discontinuous where samples leave the source domain
            return sp.ImageTransformer(t, target=g, source=gs, padding="border")(img)

        def evaluate_at(vals):
            old = [p.data for p in params]
            for p, v in zip(params, vals):
                p.data = v.to(p.dtype)
            try:
                with torch.no_grad():
                    return evaluate()
            finally:
                for p, o in zip(params, old):
                    p.data = o

        tag = f"{name}.{what}"
        if what == "input-points":
            # gradient with respect to the input point coordinates
            directional_check(K, tag, lambda p: evaluate(p), [pts], torch.float64)
            return
        K.checked += 1
        try:
            out = evaluate()
        except Exception as ex:  # noqa: BLE001
            K.failures.append({"clause": Q20 + f" [{tag}: raised {type(ex).__name__}: {ex}]", "kind": "property", "tag": tag})
            return
        hs, rtol, eps = _steps(out.dtype)
        w = torch.randn(out.shape, generator=gen, dtype=torch.float64).to(out.dtype)
        scalar = (out * w).sum()
        mag = float((out.detach() * w).abs().sum()) / max(1.0, math.sqrt(out.numel()))
        try:
            grads = torch.autograd.grad(scalar, params, allow_unused=True)
        except Exception as ex:  # noqa: BLE001
            K.failures.append({"clause": Q20 + f" [{tag}: backward raised {type(ex).__name__}: {str(ex)[:160]}]", "kind": "property", "tag": tag})
            return
        for i, (p, gr) in enumerate(zip(params, grads)):
            K.checked += 1
            if gr is None:
                K.failures.append({"clause": Q20 + f" [{tag}: no gradient reaches parameter {i} (graph break)]", "kind": "property", "tag": tag})
                continue
            if not torch.isfinite(gr).all():
                K.failures.append({"clause": Q20 + f" [{tag}: non-finite gradient]", "kind": "property", "tag": tag})
                continue
            for k in range(2):
                d = torch.randn(p.shape, generator=gen, dtype=p.dtype)
                d = d / d.norm().clamp(min=1e-12)
                base = [q.data.clone() for q in params]
                fds = {}
                for h in hs:
                    plus = [b.clone() for b in base]
                    minus = [b.clone() for b in base]
                    plus[i] = plus[i] + h * d
                    minus[i] = minus[i] - h * d
                    fp = (evaluate_at(plus) * w).sum().double().item()
                    fm = (evaluate_at(minus) * w).sum().double().item()
                    fds[h] = ((fp - fm) / (2 * h), rtol)
                an = (gr * d).sum().item()
                if not compare(K, tag, f"parameter {i}", an, fds, float(gr.norm()) / math.sqrt(gr.numel()), lambda h: 16 * eps * max(mag, abs(float(scalar))) / h):
                    break
