"""C08 - homogeneous-transform and rotation algebra (deepali.core.linalg / affine / _kornia)."""
from __future__ import annotations

import itertools
from fractions import Fraction

import numpy as np
import torch

from spec import affine as SA
from spec import grid as SG
from vc import expr as E
from vc.contract import Raised, register

Q_COMPOSE = ("C08: composing homogeneous transformations given in any mix of the three accepted forms (translation vector, "
             "square matrix, D x (D+1) matrix) and any compatible batch shapes equals applying them one after the other")
Q_CONVERT = "C08: converting any form to a full matrix does not change the map"
Q_VECTORS = "C08: applying a transformation to vectors ignores exactly its translation"
Q_EULER = ("C08: Euler-angle matrices equal the product of the elementary axis rotations in the stated order for every order "
           "string, are proper rotations")

BATCHES = {"none": (), "1": (1,), "2": (2,)}


def form_shape(form, D):
    return {"translation": (D, 1), "affine": (D, D), "homogeneous": (D, D + 1)}[form]


def sym_transform(K, name, form, D, batch):
    """symbolic transformation tensor of the given form; translation without batch is the 1-D form (D,)"""
    shp = BATCHES[batch] + form_shape(form, D)
    arr = K.reals(name, shp)
    if form == "translation" and batch == "none":
        return K.tensor(arr.reshape(D)), arr
    return K.tensor(arr), arr


def items(arr, form, D):
    """list of (A, t) per batch item (one item if unbatched)"""
    a = arr.reshape((-1,) + form_shape(form, D))
    return [SA.as_affine(a[n], form, D) for n in range(a.shape[0])]


def result_affine(K, res, D):
    """per batch item (A|t) arrays of a returned transformation of shape (..., D, 1|D|D+1)"""
    a = K.val(res)
    if a.ndim == 1:
        a = a.reshape(D, 1)
    a = a.reshape((-1,) + a.shape[-2:])
    out = []
    zero = E.ZERO if K.mode == "sym" else K.val(0.0)[()]
    one = E.ONE if K.mode == "sym" else K.val(1.0)[()]
    for n in range(a.shape[0]):
        m = a[n]
        full = np.empty((D, D + 1), dtype=object)
        if m.shape[1] == 1:
            for i in range(D):
                for j in range(D):
                    full[i, j] = one if i == j else zero
                full[i, D] = m[i, 0]
        elif m.shape[1] == D:
            full[:, :D] = m
            full[:, D] = zero
        else:
            full[:, :] = m
        out.append(full)
    return out


@register
class HomogeneousMatmul:
    target = "deepali.core.linalg:homogeneous_matmul"
    properties = ("C08",)

    def cases(self, tier):
        for D in (2, 3):
            for fa in SA.FORMS:
                for fb in SA.FORMS:
                    for ba in BATCHES:
                        for bb in BATCHES:
                            for fn in ("homogeneous_matmul", "hmm"):
                                if tier == "quick" and fn == "hmm" and (ba, bb) not in (("none", "none"), ("2", "1")):
                                    continue
                                yield {"D": D, "a": fa, "b": fb, "batch_a": ba, "batch_b": bb, "fn": fn}

    def run(self, case, K):
        from deepali.core import linalg

        D = case["D"]
        a, ea = sym_transform(K, "a", case["a"], D, case["batch_a"])
        b, eb = sym_transform(K, "b", case["b"], D, case["batch_b"])
        res = K.call(getattr(linalg, case["fn"]), a, b)
        if not K.ensure_returns(res, text="composition succeeds for every pair of accepted forms and compatible batch shapes"):
            return
        ia, ib = items(ea, case["a"], D), items(eb, case["b"], D)
        n = max(len(ia), len(ib))
        got = result_affine(K, res, D)
        K.ensure("batch", E.bconst(len(got) == n), text="result has one transformation per batch item", kind="helper")
        if len(got) != n:
            return
        for k in range(n):
            A, t = SA.compose(ia[k % len(ia)], ib[k % len(ib)])
            K.ensure_eq(f"compose[{k}]", got[k], SG.hom(A, t), text=Q_COMPOSE)
        if case["fn"] == "hmm":
            shp = tuple(res.shape[-2:])
            K.ensure("form", E.bconst(shp == (D, D + 1)), text="hmm returns full matrices (..., D, D+1)", kind="helper")
        bad = SG.hom(*SA.compose(ib[0], ia[0]))  # wrong order of composition
        if case["a"] != "translation" or case["b"] != "translation":
            if not (case["a"] == "affine" and case["b"] == "affine" and D == 1):
                K.ensure_eq("mustfail", got[0], bad, text="composition in the wrong order", must_fail=True)


@register
class HomogeneousTransformApply:
    target = "deepali.core.linalg:homogeneous_transform"
    properties = ("C08",)
    POINTS = {"vec": lambda D, N: (D,), "1MD": lambda D, N: (1, 3, D), "NMD": lambda D, N: (N, 3, D), "NYXD": lambda D, N: (N, 2, 2, D)}

    def cases(self, tier):
        for D in (2, 3):
            for form in SA.FORMS:
                for tb in ("none", "1", "2"):
                    for ps in self.POINTS:
                        for vectors in (False, True):
                            yield {"D": D, "form": form, "batch": tb, "points": ps, "vectors": vectors}
            # integer-valued point coordinates (voxel indices) with a real transformation: the same real map
            for form in SA.FORMS:
                for vectors in (False, True):
                    yield {"D": D, "form": form, "batch": "1", "points": "1MD", "vectors": vectors, "dtype": "int64"}

    def run(self, case, K):
        from deepali.core.linalg import homogeneous_transform

        D = case["D"]
        T, eT = sym_transform(K, "T", case["form"], D, case["batch"])
        NT = {"none": 1, "1": 1, "2": 2}[case["batch"]]
        pshape = self.POINTS[case["points"]](D, 2 if case["points"] != "1MD" else 1)
        if case["points"] in ("NMD", "NYXD") and NT == 1:
            pass
        if case.get("dtype") == "int64":
            ep = K.ints("p", pshape, lo=-5, hi=5)
            p = K.tensor(ep, dtype=torch.int64)
        else:
            ep = K.reals("p", pshape)
            p = K.tensor(ep)
        res = K.call(homogeneous_transform, T, p, vectors=case["vectors"])
        if not K.ensure_returns(res, text="application succeeds for every accepted transformation form and point shape"):
            return
        its = items(eT, case["form"], D)
        NP = 1 if len(pshape) == 1 else pshape[0]
        N = max(NT, NP)
        pts = ep.reshape((NP, -1, D))
        want = np.empty((N, pts.shape[1], D), dtype=object)
        for n in range(N):
            for m in range(pts.shape[1]):
                want[n, m] = SA.apply(its[n % len(its)], list(pts[n % NP, m]), vectors=case["vectors"])
        got = K.val(res)
        K.ensure("numel", E.bconst(got.size == want.size), text="one output point per (transformation, input point)", kind="helper")
        if got.size != want.size:
            return
        K.ensure_eq("apply", got.reshape(want.shape), want, text=Q_VECTORS if case["vectors"] else Q_COMPOSE + " (application to points: A p + t)")
        if not case["vectors"] and case["form"] != "affine":
            bad = want.copy()
            bad[0, 0, 0] = E.sub(bad[0, 0, 0], its[0][1][0])
            bad[0, 0, 0] = E.add(bad[0, 0, 0], Fraction(1, 3))
            K.ensure_eq("mustfail", got.reshape(want.shape), bad, text="translation ignored", must_fail=True)


@register
class HomogeneousMatrixConvert:
    """as_homogeneous_matrix / homogeneous_matrix(offset): same map; offset added to the translation; the
    argument is never written (C15 frame obligation lives in K.call)."""

    target = "deepali.core.linalg:homogeneous_matrix"
    properties = ("C08", "C15")

    def cases(self, tier):
        for D in (2, 3):
            for form in SA.FORMS:
                for batch in BATCHES:
                    for fn in ("as_homogeneous_matrix", "homogeneous_matrix", "homogeneous_matrix+offset", "homogeneous_matrix+scalar"):
                        yield {"D": D, "form": form, "batch": batch, "fn": fn}

    def run(self, case, K):
        from deepali.core import linalg

        D = case["D"]
        T, eT = sym_transform(K, "T", case["form"], D, case["batch"])
        off = None
        if case["fn"] == "as_homogeneous_matrix":
            res = K.call(linalg.as_homogeneous_matrix, T)
        elif case["fn"] == "homogeneous_matrix":
            res = K.call(linalg.homogeneous_matrix, T)
        elif case["fn"] == "homogeneous_matrix+offset":
            off = K.reals("o", (D,))
            res = K.call(linalg.homogeneous_matrix, T, offset=K.tensor(off))
        else:
            o = K.real("o")
            off = np.array([o] * D, dtype=object)
            res = K.call(linalg.homogeneous_matrix, T, offset=K.tensor(o))
        if not K.ensure_returns(res, text="conversion succeeds for every accepted form"):
            return
        its = items(eT, case["form"], D)
        got = result_affine(K, res, D)
        K.ensure("batch", E.bconst(len(got) == len(its) and tuple(res.shape[-2:]) == (D, D + 1)), text="full matrices, one per item", kind="helper")
        if len(got) != len(its):
            return
        for k, (A, t) in enumerate(its):
            if off is not None:
                t = [E.add(t[i], off[i]) for i in range(D)]
            K.ensure_eq(f"convert[{k}]", got[k], SG.hom(A, t), text=Q_CONVERT)
        if case["fn"].startswith("homogeneous_matrix"):
            same = res.untyped_storage()._cdata == T.untyped_storage()._cdata
            K.ensure("copy", E.bconst(not same), text="homogeneous_matrix always returns a copy", kind="helper")


LETTERS = ["".join(p) for p in itertools.product("XYZ", repeat=3)]
PROPER = [o for o in LETTERS if (o[0] == o[2] and o[0] != o[1]) or len(set(o)) == 3]  # 6 proper Euler + 6 Tait-Bryan


@register
class EulerRotationOrder:
    """Finite domain, decided by exhaustive evaluation of the real function."""

    target = "deepali.core.affine:euler_rotation_order"
    properties = ("C08",)
    n_bounded = 0

    def cases(self, tier):
        yield {"all": True}

    def run(self, case, K):
        from deepali.core.affine import euler_rotation_order

        for o in LETTERS:
            forms = [o, o.lower(), " o ".join("R" + ch.lower() for ch in o), " o ".join(o)]
            for f in forms:
                res = K.call(euler_rotation_order, f)
                ok = (not isinstance(res, Raised)) and res == o
                kind = "property" if o in PROPER else "helper"
                K.ensure(f"order[{f}]", E.bconst(ok), text=f"C08: every order string in letter and 'Rz o Rx o Rz' notation is understood: {f!r} -> {o}" + (f" (got {res!r})" if not ok else ""), kind=kind)
        for bad in ("XY", "XYZW", "ABC", "Rx o Ry", ""):
            res = K.call(euler_rotation_order, bad)
            K.ensure_raises(res, (ValueError,), tag=f"invalid[{bad}]", text="invalid order strings raise ValueError")
        res = K.call(euler_rotation_order, None)
        K.ensure("default", E.bconst(res == "ZXZ"), text="default order is ZXZ", kind="helper")
        res = K.call(euler_rotation_order, "XYZ", ndim=2)
        K.ensure("2d", E.bconst(res == "Z"), text="2-D: single rotation about z", kind="helper")


@register
class EulerRotationMatrix:
    target = "deepali.core.affine:euler_rotation_matrix"
    properties = ("C08",)

    def cases(self, tier):
        for o in LETTERS:
            if tier == "quick" and o not in PROPER:
                continue
            for batch in BATCHES:
                for hom in (False, True):
                    for notation in ("letters", "Rz o Rx"):
                        if notation != "letters" and (batch != "none" or hom):
                            continue
                        yield {"D": 3, "order": o, "batch": batch, "homogeneous": hom, "notation": notation}
        for batch in BATCHES:
            for hom in (False, True):
                yield {"D": 2, "order": "Z", "batch": batch, "homogeneous": hom, "notation": "letters"}

    def run(self, case, K):
        from deepali.core.affine import euler_rotation_matrix

        D = case["D"]
        nang = 3 if D == 3 else 1
        shp = BATCHES[case["batch"]] + (nang,)
        ea = K.reals("angle", shp, lo=None, hi=None)
        for v in ea.ravel():
            K.assume(E.le(Fraction(-22, 7), v))
            K.assume(E.le(v, Fraction(22, 7)))
        o = case["order"]
        order = o if case["notation"] == "letters" else " o ".join("R" + ch.lower() for ch in o)
        res = K.call(euler_rotation_matrix, K.tensor(ea), order=order if D == 3 else None, homogeneous=case["homogeneous"])
        kind = "property" if (o in PROPER or D == 2) else "helper"
        if not K.ensure_returns(res, text="C08: Euler-angle matrices ... for every order string (call must succeed for batched and unbatched angles, with and without homogeneous form)", kind=kind):
            return
        got = K.val(res)
        K.ensure("shape", E.bconst(tuple(got.shape) == BATCHES[case["batch"]] + (D, D + 1 if case["homogeneous"] else D)), text="documented result shape", kind="helper")
        angs = ea.reshape(-1, nang)
        g = got.reshape((-1,) + got.shape[-2:])
        for n in range(angs.shape[0]):
            cs = [(E.cos(a), E.sin(a)) for a in angs[n]]
            R = SA.euler_matrix(o, cs) if D == 3 else SG.mat([[cs[0][0], E.neg(cs[0][1])], [cs[0][1], cs[0][0]]])
            K.ensure_eq(f"euler[{n}]", g[n][:, :D], R, text=Q_EULER, kind=kind)
            if case["homogeneous"]:
                K.ensure_eq(f"offset[{n}]", g[n][:, D], [0] * D, text="homogeneous form has zero translation", kind=kind)
            if K.mode == "sym":
                # proper rotation: R^T R = I, det R = 1   (of the returned matrix, not of the spec)
                M = g[n][:, :D]
                K.ensure_eq(f"orthogonal[{n}]", SG.matmul(M.T, M), SG.eye(D), text=Q_EULER + " (R^T R = I)", kind=kind)
                det = SA.det3(M) if D == 3 else E.sub(E.mul(M[0, 0], M[1, 1]), E.mul(M[0, 1], M[1, 0]))
                K.ensure_eq(f"det[{n}]", det, 1, text=Q_EULER + " (det = 1)", kind=kind)
        if D == 3 and len(set(o)) > 1:  # (rotations about one axis commute: the reversed product is the same matrix)
            cs = [(E.cos(a), E.sin(a)) for a in angs[0]]
            K.ensure_eq("mustfail", g[0][:, :D], SA.euler_matrix(o[::-1], cs) if o[::-1] != o else SA.euler_matrix(o, cs[::-1]),
                        text="elementary rotations multiplied in the reverse order", must_fail=True)


def unit_quaternion(K, name):
    """All unit quaternions, rationally: q = p*p/|p|^2 for a free quaternion p != 0 (every unit quaternion is a square)."""
    p = [K.real(f"{name}.p{i}", draw=(-1, 1)) for i in range(4)]
    n2 = E.add(*[E.mul(v, v) for v in p])
    K.assume(E.lt(E.ZERO, n2))
    w = E.div(E.sub(E.mul(p[0], p[0]), E.add(*[E.mul(v, v) for v in p[1:]])), n2)
    return [w] + [E.div(E.mul(2, p[0], v), n2) for v in p[1:]]


@register
class QuaternionToRotationMatrix:
    target = "deepali.core._kornia:quaternion_to_rotation_matrix"
    properties = ("C08",)

    def cases(self, tier):
        for batch in BATCHES:
            yield {"batch": batch}

    def run(self, case, K):
        from deepali.core.linalg import quaternion_to_rotation_matrix

        nb = {"none": 1, "1": 1, "2": 2}[case["batch"]]
        qs = [unit_quaternion(K, f"q{n}") for n in range(nb)]
        arr = np.array(qs, dtype=object)
        if case["batch"] == "none":
            arr = arr[0]
        res = K.call(quaternion_to_rotation_matrix, K.tensor(arr))
        if not K.ensure_returns(res):
            return
        got = K.val(res)
        g = got.reshape((-1, 3, 3))
        for n in range(nb):
            K.ensure_eq(f"matrix[{n}]", g[n], SA.quaternion_matrix(qs[n]), text="C08: conversions between ... quaternions ... and matrices: R(q) in (w, x, y, z) order")
            if K.mode == "sym":
                K.ensure_eq(f"orthogonal[{n}]", SG.matmul(g[n].T, g[n]), SG.eye(3), text="R(q) is a proper rotation (R^T R = I)")
                K.ensure_eq(f"det[{n}]", SA.det3(g[n]), 1, text="R(q) is a proper rotation (det = 1)")
        w, x, y, z = qs[0]
        K.ensure_eq("mustfail", g[0], SA.quaternion_matrix([z, w, x, y]), text="(x, y, z, w) order instead of (w, x, y, z)", must_fail=True)


@register
class RotationConversions:
    """Bounded: matrix <-> quaternion <-> axis-angle round trips (sqrt / acos / atan2 branches), seeded sweep including the
    near-0 and near-pi branches and every dominant-axis branch of rotation_matrix_to_quaternion."""

    target = "deepali.core._kornia:rotation_matrix_to_quaternion"
    properties = ("C08",)
    symbolic = False
    n_bounded = {"quick": 60, "thorough": 600}
    tol = 2e-4

    def cases(self, tier):
        for axis in ("x", "y", "z", "free"):
            for rng_ in ("small", "mid", "large"):
                yield {"axis": axis, "angle": rng_}

    def run(self, case, K):
        import math

        from deepali.core import linalg as LA

        r = K.rng
        lo, hi = {"small": (0.0, 0.3), "mid": (0.3, 2.2), "large": (2.2, math.pi - 1e-3)}[case["angle"]]
        ang = r.uniform(lo, hi) * (1 if r.random() < 0.5 else -1)
        ax = np.array([r.gauss(0, 1) for _ in range(3)])
        if case["axis"] != "free":
            i = "xyz".index(case["axis"])
            ax = ax * 0.15
            ax[i] = 1.0 if r.random() < 0.5 else -1.0
        ax = ax / np.linalg.norm(ax)
        K.env.update({"angle": ang, "ax0": float(ax[0]), "ax1": float(ax[1]), "ax2": float(ax[2])})
        aa = torch.tensor(ax * ang, dtype=torch.float64).unsqueeze(0)
        q = torch.tensor([math.cos(ang / 2)] + list(math.sin(ang / 2) * ax), dtype=torch.float64).unsqueeze(0)
        Kx = np.array([[0, -ax[2], ax[1]], [ax[2], 0, -ax[0]], [-ax[1], ax[0], 0]])
        Rref = np.eye(3) + math.sin(ang) * Kx + (1 - math.cos(ang)) * (Kx @ Kx)  # Rodrigues
        t = "C08: all conversions between Euler angles, quaternions, axis-angle vectors and matrices round-trip to the same rotation"
        R1 = K.call(LA.quaternion_to_rotation_matrix, q)
        R2 = K.call(LA.angle_axis_to_rotation_matrix, aa)
        for name, R in (("q->R", R1), ("aa->R", R2)):
            if K.ensure_returns(R):
                K.ensure_eq(name, R.reshape(3, 3), Rref, text=t + f" [{name} vs Rodrigues' formula]")
        Rt = torch.tensor(Rref, dtype=torch.float64).unsqueeze(0)
        q2 = K.call(LA.rotation_matrix_to_quaternion, Rt)
        if K.ensure_returns(q2):
            back = K.call(LA.quaternion_to_rotation_matrix, q2)
            if K.ensure_returns(back):
                K.ensure_eq("R->q->R", back.reshape(3, 3), Rref, text=t + " [matrix -> quaternion -> matrix]")
        a2 = K.call(LA.rotation_matrix_to_angle_axis, Rt)
        if K.ensure_returns(a2):
            back = K.call(LA.angle_axis_to_rotation_matrix, a2)
            if K.ensure_returns(back):
                K.ensure_eq("R->aa->R", back.reshape(3, 3), Rref, text=t + " [matrix -> axis-angle -> matrix]")
        q3 = K.call(LA.angle_axis_to_quaternion, aa)
        if K.ensure_returns(q3):
            back = K.call(LA.quaternion_to_rotation_matrix, q3)
            if K.ensure_returns(back):
                K.ensure_eq("aa->q->R", back.reshape(3, 3), Rref, text=t + " [axis-angle -> quaternion -> matrix]")
        a3 = K.call(LA.quaternion_to_angle_axis, q)
        if K.ensure_returns(a3):
            back = K.call(LA.angle_axis_to_rotation_matrix, a3)
            if K.ensure_returns(back):
                K.ensure_eq("q->aa->R", back.reshape(3, 3), Rref, text=t + " [quaternion -> axis-angle -> matrix]")


@register
class EulerAnglesRoundTrip:
    """Bounded (acos / atan2 branches): Euler angles -> matrix -> Euler angles -> matrix is the same rotation for the orders
    for which the extraction is implemented (2-D, ZXZ, XZX), over the full angle range; and the same through the
    transforms' setters/getters (EulerRotation.matrix_(R).matrix(), QuaternionRotation.matrix_(R).matrix())."""

    target = "deepali.core.affine:euler_rotation_angles"
    properties = ("C08",)
    symbolic = False
    n_bounded = {"quick": 20, "thorough": 200}
    tol = 2e-4

    def cases(self, tier):
        yield {"D": 2, "order": None}
        for order in ("ZXZ", "XZX", "Rz o Rx o Rz"):
            yield {"D": 3, "order": order}
        for model in ("EulerRotation", "QuaternionRotation"):
            yield {"D": 3, "order": "ZXZ", "setter": model}

    def run(self, case, K):
        import math

        from deepali.core.affine import euler_rotation_angles, euler_rotation_matrix

        t = "C08: all conversions between Euler angles, quaternions, axis-angle vectors and matrices (including the transforms' parameter getters/setters) round-trip to the same rotation"
        r = K.rng
        D = case["D"]
        na = 1 if D == 2 else 3
        ang = [[r.uniform(-math.pi + 1e-3, math.pi - 1e-3) for _ in range(na)] for _ in range(2)]
        if D == 3:
            # keep the middle angle away from the gimbal-lock values 0 and pi, where the other two are not unique
            for row in ang:
                while abs(math.sin(row[1])) < 0.05:
                    row[1] = r.uniform(-math.pi, math.pi)
        K.env["angles"] = ang
        a = torch.tensor(ang, dtype=torch.float64)
        R = K.call(euler_rotation_matrix, a, order=case["order"])
        if not K.ensure_returns(R):
            return
        if "setter" in case:
            import deepali.spatial as sp
            from deepali.core.grid import Grid

            m = getattr(sp, case["setter"])(Grid(size=(4, 4, 4)), params=torch.zeros(2, 3 if case["setter"] == "EulerRotation" else 4))
            res = K.call(m.matrix_, R.float(), modifies=[p for _, p in list(m.named_parameters()) + list(m.named_buffers())])
            if K.ensure_returns(res, text=t + f" [{case['setter']}.matrix_()]"):
                back = K.call(m.matrix)
                if K.ensure_returns(back):
                    K.ensure_eq("setter-getter", back[..., :3, :3].double(), R.numpy(), text=t + f" [{case['setter']}: matrix_(R) then matrix()]")
            return
        b = K.call(euler_rotation_angles, R, order=case["order"])
        if not K.ensure_returns(b, text=t + " [angles from matrix]"):
            return
        K.ensure("shape", E.bconst(tuple(b.shape) == tuple(a.shape)), text=t + " [the extracted angles can be passed back: same shape as the angles given]")
        if tuple(b.shape) != tuple(a.shape):
            return
        R2 = K.call(euler_rotation_matrix, b, order=case["order"])
        if K.ensure_returns(R2):
            K.ensure_eq("angles->R->angles->R", R2, R.numpy(), text=t + " [Euler angles -> matrix -> Euler angles -> matrix]")


@register
class PredictedRotationFlippedCoords:
    """Bounded: GenericSpatialTransform with predicted rotation parameters and flip_grid_coords=True (the prediction is with
    respect to (z, y, x) coordinates): the rotation handed to the elementary transformation - through the quaternion <->
    matrix and Euler angles <-> matrix conversions - is the same rotation expressed in (x, y, z) order, P R P."""

    target = "deepali.spatial.generic:GenericSpatialTransform._data"
    properties = ("C08",)
    symbolic = False
    n_bounded = {"quick": 6, "thorough": 40}
    tol = 2e-4

    def cases(self, tier):
        for model in ("Q", "R"):
            for flip in (False, True):
                yield {"affine_model": model, "flip": flip}

    def run(self, case, K):
        import math

        from deepali.core.affine import euler_rotation_matrix
        from deepali.core.grid import Grid
        from deepali.core.linalg import normalize_quaternion, quaternion_to_rotation_matrix
        from deepali.spatial import GenericSpatialTransform, TransformConfig

        t = "C08: all conversions between Euler angles, quaternions, axis-angle vectors and matrices (including the transforms' parameter getters/setters) round-trip to the same rotation"
        r = K.rng
        N = 2
        if case["affine_model"] == "Q":
            q = normalize_quaternion(torch.tensor([[r.gauss(0, 1) for _ in range(4)] for _ in range(N)]))
            R = quaternion_to_rotation_matrix(q)
            pred = {"quaternion": q}
        else:
            ang = [[r.uniform(-3, 3), r.uniform(0.2, 2.9), r.uniform(-3, 3)] for _ in range(N)]
            a = torch.tensor(ang)
            R = euler_rotation_matrix(a, order="ZXZ")
            pred = {"angles": a}
        K.env["pred"] = {k: v.tolist() for k, v in pred.items()}

        class Predictor(torch.nn.Module):
            def forward(self, *args, **kwargs):
                return {k: v.clone() for k, v in pred.items()}

        cfg = TransformConfig(transform="Affine", affine_model=case["affine_model"], flip_grid_coords=case["flip"])
        m = K.call(GenericSpatialTransform, Grid(size=(6, 7, 8)), params=Predictor(), config=cfg)
        if not K.ensure_returns(m, text=t):
            return
        m.update()
        got = K.call(m.tensor)
        if K.ensure_returns(got, text=t):
            want = R.flip((1, 2)) if case["flip"] else R
            K.ensure_eq("same-rotation", got[..., :3, :3], want.numpy(), text=t + f" [predicted {case['affine_model']} parameters, flip_grid_coords={case['flip']}]")
