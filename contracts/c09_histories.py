"""C09 - a transform evaluates its current parameters and grid, never a stale snapshot (deepali.spatial, real nn.Modules).

Ghost state: the contract tracks what the history *set* (parameters, condition); after every step the real module must
behave like a freshly constructed model holding exactly that ghost state.  Parameter values are symbolic.
"""
from __future__ import annotations

import itertools
from fractions import Fraction

import numpy as np
import torch

from contracts.common import make_grid
from vc import expr as E
from vc.contract import Raised, register

Q9 = ("C09: after any history of parameter replacement, in-place optimiser-style updates, grid changes, re-conditioning of predicted "
      "parameters, resets, copies and inverse/link creation, calling a transform uses exactly the parameters, grid and conditioning it "
      "holds at that moment")
Q9D = "C09: the dense displacement obtained right after a replacing or resetting operation reflects the new state"
Q9G = "C09: changing the grid of a dense or spline model re-expresses its parameters so that the world-space deformation is preserved"

OPS = ("data_", "inplace", "reset", "update", "call", "disp", "clear", "inverse", "condition_")
MODELS = ("ddf", "svf", "ffd", "svffd", "callable")


def fresh(kind, grid, params):
    import deepali.spatial as sp

    if kind in ("ddf", "callable"):
        return sp.DisplacementFieldTransform(grid, params=params)
    if kind == "svf":
        return sp.StationaryVelocityFieldTransform(grid, params=params, steps=1)
    if kind == "ffd":
        return sp.FreeFormDeformation(grid, params=params, stride=2)
    return sp.StationaryVelocityFreeFormDeformation(grid, params=params, stride=2, steps=1)


def histories(tier):
    if tier == "quick":
        for h in itertools.product(OPS, repeat=2):
            yield h
        # the length-3 histories in which a buffer exists before the state changes and is consulted afterwards
        seen = set()
        for b in ("call", "update", "disp"):
            for r in ("data_", "reset", "inplace", "condition_", "clear", "inverse"):
                for q in ("disp", "call"):
                    seen.add((b, r, q))
                    yield (b, r, q)
        # a seeded sample of further length-3 histories
        import random

        rnd = random.Random(7)
        while len(seen) < 76:
            h = tuple(rnd.choice(OPS) for _ in range(3))
            if h not in seen:
                seen.add(h)
                yield h
    else:
        for n in (1, 2, 3):
            for h in itertools.product(OPS, repeat=n):
                yield h
        import random

        rnd = random.Random(11)
        seen = set()
        while len(seen) < 150:
            h = tuple(rnd.choice(OPS) for _ in range(4))
            if h not in seen:
                seen.add(h)
                yield h


@register
class StaleStateHistories:
    target = "deepali.spatial.parametric:ParametricTransform.update"
    properties = ("C09",)
    max_paths = 8

    def cases(self, tier):
        for kind in MODELS:
            for h in histories(tier):
                if "condition_" in h and kind != "callable":
                    continue
                if kind == "callable" and any(op in h for op in ("data_", "inverse")):
                    continue  # parameters produced by a callable are read-only / not invertible here
                if kind in ("ddf", "ffd", "callable") and "inverse" in h:
                    continue
                yield {"model": kind, "history": list(h)}

    def run(self, case, K):
        kind = case["model"]
        D = 2
        g, gs = make_grid(K, "g", D, sizes=(5, 4) if kind in ("ffd", "svffd") else (4, 3), align_corners=True)
        proto = fresh(kind if kind != "callable" else "ddf", g, False)
        shape = tuple(proto.data().shape)
        n = [0]

        def new_values(tag):
            n[0] += 1
            return K.reals(f"{tag}{n[0]}", shape, lo=Fraction(-1, 8), hi=Fraction(1, 8))

        ghost = {"params": new_values("p"), "cond": None}
        if kind == "callable":
            base = K.tensor(ghost["params"])
            c0 = K.real("c0", draw=(Fraction(1, 2), 2))
            ghost["cond"] = c0

            def predictor(c):
                return base * c

            t = fresh("callable", g, predictor)
            t.condition_(K.tensor(c0))
        else:
            t = fresh(kind, g, K.tensor(ghost["params"]))
        ex = K.reals("x", (1, 2, D), lo=Fraction(-1, 2), hi=Fraction(1, 2))
        x = K.tensor(ex)

        def oracle():
            vals = ghost["params"]
            if kind == "callable":
                vals = np.frompyfunc(lambda v: E.mul(v, ghost["cond"]), 1, 1)(vals)
            return fresh(kind if kind != "callable" else "ddf", g, K.tensor(vals))

        def check_call(tag):
            y = K.call(t, x, modifies=_state_tensors(t))
            if not K.ensure_returns(y, text=Q9):
                return
            o = oracle()
            want = K.call(o, x, modifies=_state_tensors(o))
            K.ensure_eq(tag, y, K.val(want), text=Q9)

        fresh_state = True  # disp() is only constrained right after a replacing / resetting operation
        edited_in_place = False  # parameters edited in place (or re-conditioned) since the buffers were last computed
        for i, op in enumerate(case["history"]):
            tag = f"{i}:{op}"
            if op == "data_":
                ghost["params"] = new_values("p")
                r = K.call(t.data_, K.tensor(ghost["params"]), modifies=_state_tensors(t))
                K.ensure_returns(r, text=Q9)
                fresh_state = True
            elif op == "inplace":
                c = K.real(f"k{i}", draw=(Fraction(1, 2), Fraction(3, 2)))
                with torch.no_grad():
                    if kind == "callable":
                        K.call(base.mul_, K.tensor(c), modifies=[base])
                    else:
                        p = t.data()
                        K.call(p.mul_, K.tensor(c), modifies=[p])
                ghost["params"] = np.frompyfunc(lambda v: E.mul(v, c), 1, 1)(ghost["params"])
                fresh_state = False
                edited_in_place = True
            elif op == "reset":
                if kind == "callable":
                    r = K.call(t.reset_parameters, modifies=_state_tensors(t))
                    fresh_state = False  # predicted parameters are recomputed by the next update
                else:
                    r = K.call(t.reset_parameters, modifies=_state_tensors(t))
                    ghost["params"] = np.full(shape, E.ZERO, dtype=object)
                    fresh_state = True
                K.ensure_returns(r, text=Q9)
            elif op == "update":
                K.ensure_returns(K.call(t.update, modifies=_state_tensors(t)), text=Q9)
                edited_in_place = False
            elif op == "clear":
                K.ensure_returns(K.call(t.clear_buffers, modifies=_state_tensors(t)), text=Q9)
            elif op == "call":
                check_call(tag)
                edited_in_place = False
            elif op == "disp":
                u = K.call(t.disp, modifies=_state_tensors(t))
                if K.ensure_returns(u, text=Q9D) and fresh_state and kind != "callable":
                    o = oracle()
                    K.ensure_eq(tag, u, K.val(K.call(o.disp, modifies=_state_tensors(o))), text=Q9D)
            elif op == "inverse":
                inv = K.call(t.inverse, update_buffers=True, protect=[t])
                if K.ensure_returns(inv, text=Q9):
                    # the displacement buffered in the new inverse is that of the inverse map of the *current* state: the
                    # same as building the inverse of a fresh model first and computing its buffers afterwards
                    ui = K.call(inv.disp, modifies=_state_tensors(inv))
                    o = oracle()
                    oi = o.inverse(update_buffers=False)
                    oi.update()
                    # (an in-place edit cannot invalidate buffers: the statement constrains disp() after replacing /
                    # resetting operations and the *call* after any history - so only when nothing was edited in place
                    # since the buffers were computed)
                    if K.ensure_returns(ui, text=Q9D) and not edited_in_place:
                        K.ensure_eq(tag + ":inverse-disp", ui, K.val(K.call(oi.disp, modifies=_state_tensors(oi))),
                                    text=Q9D + " [disp() of an inverse created with update_buffers=True is the inverse displacement of the current state]")
            elif op == "condition_":
                c = K.real(f"c{i + 1}", draw=(Fraction(1, 2), 2))
                ghost["cond"] = c
                K.ensure_returns(K.call(t.condition_, K.tensor(c), modifies=_state_tensors(t)), text=Q9)
                fresh_state = False
                edited_in_place = True
        check_call("final")


def _state_tensors(t):
    out = []
    for _, p in list(t.named_parameters()) + list(t.named_buffers()):
        out.append(p)
    return out


@register
class Regridding:
    """grid_() of dense (resample + vector rescale) and spline (subdivision) models keeps the world-space deformation, for
    fields that the new sampling can represent exactly (affine in position)."""

    target = "deepali.spatial.nonrigid:DenseVectorFieldTransform.grid_"
    properties = ("C09",)
    tol = 2e-4

    def cases(self, tier):
        for kind in ("ddf", "ffd"):
            yield {"model": kind}
        # dense models re-gridded onto a different domain (bounded clause: the path rounds coordinates)
        for kind in ("ddf", "svf"):
            for how in ("crop", "pad", "shift", "finer-shifted", "flag-flip", "finer-flag-flip"):
                yield {"model": kind, "domain": how}

    def run(self, case, K):
        from contracts.c11_c13_flow import affine_disp, invariant_map

        kind = case["model"]
        D = 2
        if "domain" in case:
            return self.other_domain(case, K)
        if kind == "ddf":
            g, gs = make_grid(K, "g", D, sizes=(4, 3), align_corners=True)
            P, tr = invariant_map(K, "m", D)
            vals = affine_disp(P, tr, (3, 4), True)
            t = fresh("ddf", g, K.tensor(vals))
            g2 = g.resize((7, 5))
            ex = K.reals("x", (1, 2, D), lo=Fraction(-1, 2), hi=Fraction(1, 2))
            y0 = K.call(t, K.tensor(ex), modifies=_state_tensors(t))
            r = K.call(t.grid_, g2, modifies=_state_tensors(t))
            if not (K.ensure_returns(y0) and K.ensure_returns(r, text=Q9G)):
                return
            y1 = K.call(t, K.tensor(ex), modifies=_state_tensors(t))
            if K.ensure_returns(y1, text=Q9G):
                # the resampling path rounds sample coordinates to 12 decimals: the clause is exact only up to that rounding,
                # so it is evaluated numerically (bounded mode); the symbolic run still proves that the call succeeds,
                # leaves the frame intact and produces parameters of the new shape
                if K.mode == "conc":
                    K.ensure_eq("same-map", y1, K.val(y0), text=Q9G)
                K.ensure("new-shape", E.bconst(tuple(t.data().shape[2:]) == (5, 7)), text="parameters are resampled on the new grid", kind="helper")
        else:
            g, gs = make_grid(K, "g", D, sizes=(5, 5), align_corners=True)
            t = fresh("ffd", g, False)
            shape = tuple(t.data().shape)
            vals = K.reals("c", shape, lo=Fraction(-1, 8), hi=Fraction(1, 8))
            t.data_(K.tensor(vals))
            u0 = K.call(t.disp, modifies=_state_tensors(t))
            g2 = g.resize((9, 9))
            r = K.call(t.grid_, g2, modifies=_state_tensors(t))
            if not (K.ensure_returns(u0) and K.ensure_returns(r, text=Q9G)):
                return
            u1 = K.call(t.disp, modifies=_state_tensors(t))
            if K.ensure_returns(u1, text=Q9G):
                a, b = K.val(u0), K.val(u1)
                K.ensure_eq("same-field", b[..., ::2, ::2], a, text=Q9G + " [the refined spline equals the original at every old sample position]")

    def other_domain(self, case, K):
        """grid_() onto a grid covering a different domain: world points in the interior of both domains are mapped to the
        same world points before and after (world-affine displacement / zero velocity offset: exactly representable)."""
        from deepali.core.grid import Axes, Grid

        kind, how = case["model"], case["domain"]
        if K.mode == "sym":
            K.ensure("bounded-only", E.TRUE, text="(evaluated in bounded mode: resampling rounds coordinates to 12 decimals)", kind="helper")
            return
        r = K.rng
        a = r.uniform(-0.6, 0.6)
        R = torch.tensor([[np.cos(a), -np.sin(a)], [np.sin(a), np.cos(a)]], dtype=torch.float32)
        g = Grid(size=(9, 8), spacing=(r.uniform(0.6, 1.5), r.uniform(0.6, 1.5)), center=(r.uniform(-3, 3), r.uniform(-3, 3)), direction=R)
        if how == "crop":
            g2 = g.crop(num=(1, 2, 1, 0))
        elif how == "pad":
            g2 = g.pad(num=(2, 1, 0, 2))
        elif how == "flag-flip":
            g2 = g.align_corners(not g.align_corners())   # same lattice, the other normalised-cube convention
        elif how == "finer-flag-flip":
            g2 = g.resize((17, 15)).align_corners(not g.align_corners())
        elif how == "shift":
            g2 = g.center(g.center() + g.direction() @ (g.spacing() * torch.tensor([1.5, -1.0])))
        else:
            g2 = g.resize((13, 11)).center(g.center() + g.direction() @ (g.spacing() * torch.tensor([0.8, 0.6])))
        # world-affine displacement u(x) = A x + b (small), sampled on g in the model's own representation
        A = torch.tensor([[r.uniform(-0.05, 0.05) for _ in range(2)] for _ in range(2)])
        b = torch.tensor([r.uniform(-0.3, 0.3) for _ in range(2)])
        K.env.update({"A": A.tolist(), "b": b.tolist(), "angle": a})
        M = g.transform(Axes.GRID, Axes.WORLD)
        xw = g.coords(normalize=False).float().reshape(-1, 2) @ M[:, :2].T + M[:, 2]  # world coordinates of grid points
        uw = xw @ A.T + (b if kind == "ddf" else 0 * b)
        ucube = g.transform(Axes.WORLD, Axes.from_grid(g), vectors=True)
        uc = (uw @ ucube[:2, :2].T).T.reshape(1, 2, *g.shape)
        t = fresh(kind, g, uc.clone())
        pts = g.center() + (torch.tensor([[r.uniform(-1, 1), r.uniform(-1, 1)] for _ in range(5)]) * g.spacing()) @ g.direction().T
        pts = pts.unsqueeze(0)
        w0 = K.call(t.points, pts, axes=Axes.WORLD)
        res = K.call(t.grid_, g2, modifies=_state_tensors(t))
        if not (K.ensure_returns(w0) and K.ensure_returns(res, text=Q9G)):
            return
        w1 = K.call(t.points, pts, axes=Axes.WORLD)
        if K.ensure_returns(w1, text=Q9G):
            K.ensure_eq("same-world-map", w1, K.val(w0), text=Q9G + f" [{how}: world points in the interior of both domains]")


@register
class CompositeInverseBuffers:
    """A composite with a stationary-velocity member that was evaluated before: inverse(update_buffers=True) (what `.inv`
    requests) yields a transformation that is usable as it is - its disp() / forward() / points(), none of which runs the
    update hook, are those of an inverse whose buffers were computed after it was built."""

    target = "deepali.spatial.composite:SequentialTransform.inverse"
    properties = ("C09", "C07")

    def cases(self, tier):
        for kind in ("svf", "svffd"):
            for first in ("Translation", None):
                yield {"member": kind, "first": first}
        yield {"member": "svf", "first": "generic"}  # GenericSpatialTransform "Affine o SVF" has its own inverse()

    def run(self, case, K):
        import deepali.spatial as sp

        D = 2
        kind = case["member"]
        g, gs = make_grid(K, "g", D, sizes=(5, 4) if kind == "svffd" else (4, 3), align_corners=True)
        proto = fresh(kind, g, False)
        vals = K.reals("p", tuple(proto.data().shape), lo=Fraction(-1, 8), hi=Fraction(1, 8))
        child = fresh(kind, g, K.tensor(vals))
        members = [child]
        if case["first"] == "generic":
            from deepali.spatial.generic import GenericSpatialTransform, TransformConfig

            cfg = TransformConfig(transform="Affine o SVF", affine_model="T", scaling_and_squaring_steps=1)
            t = GenericSpatialTransform(g, params=False, config=cfg)
            for name, tr in t.named_transforms():
                if name == "nonrigid":
                    tr.data_(K.tensor(vals))
                else:
                    tr.data_(K.tensor(K.reals("t", tuple(tr.data_shape if hasattr(tr, "data_shape") else (D,)), lo=Fraction(-1, 8), hi=Fraction(1, 8))).unsqueeze(0))
        else:
            if case["first"]:
                members.insert(0, sp.Translation(g, params=K.tensor(K.reals("t", (1, D), lo=Fraction(-1, 8), hi=Fraction(1, 8)))))
            t = sp.SequentialTransform(*members)
        x = torch.tensor([[[0.21, -0.37], [-0.42, 0.13]]])
        y = K.call(t, x, modifies=_state_tensors(t))
        if not K.ensure_returns(y, text=Q9):
            return
        inv = K.call(t.inverse, update_buffers=True, protect=[t])
        if not K.ensure_returns(inv, text=Q9):
            return
        ref = t.inverse(update_buffers=False)
        ref.update()
        for name, f in (("disp", lambda m: m.disp()), ("forward", lambda m: m.forward(x))):
            got = K.call(f, inv, modifies=_state_tensors(inv))
            if K.ensure_returns(got, text=Q9D):
                want = K.call(f, ref, modifies=_state_tensors(ref))
                K.ensure_eq(f"inverse-{name}", got, K.val(want), text=Q9D + f" [{name}() of a composite inverse created with update_buffers=True]")


@register
class TransformersUseCurrentState:
    """PointSetTransformer / ImageTransformer evaluate the transformation through its update hook: after an optimiser-style
    in-place edit of the parameters (or a re-conditioning of predicted parameters) the next call of the *transformer* uses
    the current state, like the next call of the transformation itself."""

    target = "deepali.spatial.transformer:PointSetTransformer.forward"
    properties = ("C09",)

    def cases(self, tier):
        for kind in ("svf", "ffd", "svffd", "callable"):
            for which in ("PointSetTransformer", "ImageTransformer"):
                yield {"model": kind, "transformer": which}

    def run(self, case, K):
        import deepali.spatial as sp

        D = 2
        kind = case["model"]
        g, gs = make_grid(K, "g", D, sizes=(5, 4) if kind in ("ffd", "svffd") else (4, 3), align_corners=True)
        proto = fresh(kind if kind != "callable" else "ddf", g, False)
        vals = K.reals("p", tuple(proto.data().shape), lo=Fraction(-1, 8), hi=Fraction(1, 8))
        c = K.real("c", draw=(Fraction(1, 2), Fraction(3, 2)))
        if kind == "callable":
            base = K.tensor(vals)
            t = fresh("callable", g, lambda k: base * k)
            t.condition_(K.tensor(E.ONE))
        else:
            t = fresh(kind, g, torch.nn.Parameter(K.tensor(vals)))
        if case["transformer"] == "PointSetTransformer":
            tr = sp.PointSetTransformer(t)
            x = torch.tensor([[[0.21, -0.37], [-0.42, 0.13]]])
        else:
            tr = sp.ImageTransformer(t)
            # image: a ramp affine in the voxel index (multilinear interpolation reproduces it, whatever the sample points)
            a0, a1, a2 = (K.real(n, draw=(Fraction(-1), Fraction(1))) for n in ("a0", "a1", "a2"))  # (O(1) witnesses: float32 validation)
            shp = tuple(int(n) for n in g.shape)
            ramp = np.empty((1, 1) + shp, dtype=object)
            for idx in np.ndindex(*shp):
                ramp[(0, 0) + idx] = E.add(a0, E.mul(a1, idx[1]), E.mul(a2, idx[0]))
            x = K.tensor(ramp)
        first = K.call(tr, x, modifies=_state_tensors(tr))
        if not K.ensure_returns(first, text=Q9):
            return
        # optimiser-style in-place update / re-conditioning
        if kind == "callable":
            K.call(tr.condition_, K.tensor(c), modifies=_state_tensors(tr))
        else:
            with torch.no_grad():
                p = t.data()
                K.call(p.mul_, K.tensor(c), modifies=[p])
        second = K.call(tr, x, modifies=_state_tensors(tr))
        scaled = np.frompyfunc(lambda v: E.mul(v, c), 1, 1)(vals)
        o = fresh(kind if kind != "callable" else "ddf", g, K.tensor(scaled))
        otr = sp.PointSetTransformer(o) if case["transformer"] == "PointSetTransformer" else sp.ImageTransformer(o)
        want = K.call(otr, x, modifies=_state_tensors(otr))
        if K.ensure_returns(second, text=Q9) and K.ensure_returns(want):
            K.ensure_eq("current-state", second, K.val(want), text=Q9 + f" [{case['transformer']} called after the state changed]")
