"""C03 - derived grids (resize, down/upsample, pyramid, resample, crop, pad, narrow, ROI, center crop/pad, pool)."""
from __future__ import annotations

import itertools
from fractions import Fraction

import numpy as np
import torch

from contracts.common import cube_extent, make_grid
from spec import grid as SG
from vc import expr as E
from vc.contract import Raised, register

Q3R = ("C03: resizing, down/upsampling, pyramids and resampling keep center and orientation and, per align_corners, either the corner "
       "sample positions or the physical extent")
Q3C = ("C03: cropping, padding, narrowing, region-of-interest, center crop/pad and pooling keep spacing and orientation and every "
       "retained sample keeps its world position")
Q3S = "C03: these operations succeed for every valid grid and never report an internal consistency error"


def world_of_index(gs: SG.GridSpec, idx):
    A, t = gs.to_world("grid")
    y = SG.matvec(A, idx)
    return [E.add(y[i], t[i]) for i in range(gs.D)]


def spec_of(K, g, N=None):
    """GridSpec view of a returned real grid (its attributes as expressions)"""
    n = K.val(g.size_tensor())
    return SG.GridSpec(list(n) if N is None else N, list(K.val(g.spacing())), list(K.val(g.center())), K.val(g.direction()), g.align_corners())


def keeps_pose(K, g2, gs, tag=""):
    K.ensure_eq(f"center{tag}", g2.center(), gs.c, text=Q3R + " [center kept]")
    K.ensure_eq(f"direction{tag}", g2.direction(), gs.R, text=Q3R + " [orientation kept]")


def same_frame(K, g2, gs, lo, tag=""):
    """spacing/direction unchanged and new index j is old index j + lo (hence every retained sample keeps its world position)"""
    K.ensure_eq(f"spacing{tag}", g2.spacing(), gs.s, text=Q3C + " [spacing kept]")
    K.ensure_eq(f"direction{tag}", g2.direction(), gs.R, text=Q3C + " [orientation kept]")
    K.ensure_eq(f"origin{tag}", g2.origin(), world_of_index(gs, lo), text=Q3C + " [new sample j is old sample j + lower margin, in (x, ...) order]")


@register
class GridResize:
    target = "deepali.core.grid:Grid._resize"
    properties = ("C03",)

    def cases(self, tier):
        for D in (2, 3):
            for fn in ("resize", "reshape"):
                for gac in (True, False):
                    for ac in (None, True, False):
                        yield {"D": D, "fn": fn, "grid_align_corners": gac, "align_corners": ac}

    def run(self, case, K):
        D = case["D"]
        gac = case["grid_align_corners"]
        g, gs = make_grid(K, "g", D, align_corners=gac)
        m = [K.int(f"m{i}", 2, None, draw=(2, 12)) for i in range(D)]
        ac = gac if case["align_corners"] is None else case["align_corners"]
        arg = m if case["fn"] == "resize" else m[::-1]
        res = K.call(getattr(g, case["fn"]), K.tensor(arg, dtype=torch.int64), align_corners=case["align_corners"])
        if not K.ensure_returns(res, text=Q3S):
            return
        K.ensure_eq("size", res.size_tensor(), m, text="resize returns a grid of the requested size, given in (x, ...) order for resize and (..., x) for reshape")
        keeps_pose(K, res, gs)
        rs = spec_of(K, res, N=m)
        if ac:
            first = world_of_index(rs, [E.ZERO] * D)
            last = world_of_index(rs, [E.sub(v, 1) for v in m])
            K.ensure_eq("first-sample", first, world_of_index(gs, [E.ZERO] * D), text=Q3R + " [align_corners: first sample position kept]")
            K.ensure_eq("last-sample", last, world_of_index(gs, [E.sub(n, 1) for n in gs.N]), text=Q3R + " [align_corners: last sample position kept]")
        else:
            K.ensure_eq("extent", [E.mul(a, b) for a, b in zip(rs.s, m)], [E.mul(a, b) for a, b in zip(gs.s, gs.N)], text=Q3R + " [physical extent kept]")
        bad = [E.mul(a, E.sub(b, 1)) for a, b in zip(gs.s, gs.N)] if not ac else [E.mul(a, b) for a, b in zip(gs.s, gs.N)]
        got = [E.mul(a, E.sub(b, 1)) for a, b in zip(rs.s, m)] if not ac else [E.mul(a, b) for a, b in zip(rs.s, m)]
        K.ensure_eq("mustfail", got, bad, text="the other align_corners convention", must_fail=True)


@register
class GridDownUp:
    target = "deepali.core.grid:Grid.downsample"
    properties = ("C03",)

    def cases(self, tier):
        for D in (2, 3):
            for k in (1, 2, 3):
                for ac in (True, False):
                    for dims in (None, (0,)):
                        for min_size in (1, 3):
                            if tier == "quick" and ((k == 3 and D == 3) or (min_size == 3 and dims)):
                                continue
                            yield {"D": D, "levels": k, "align_corners": ac, "dims": dims, "min_size": min_size}

    def run(self, case, K):
        D, k, ac = case["D"], case["levels"], case["align_corners"]
        sc = 2 ** k
        clamp = case["min_size"] > 1
        # statement: levels with size / 2^levels >= 2 (then no axis is clamped by the default min_size)
        g, gs = make_grid(K, "g", D, align_corners=ac, nmin=(2 * sc if not clamp else 2))
        dims = case["dims"]
        axes = list(range(D)) if not dims else list(dims)
        res = K.call(g.downsample, k, dims=dims, min_size=case["min_size"])
        if not K.ensure_returns(res, text=Q3S):
            return
        raw = []
        for i in range(D):
            if i in axes:
                h = E.mul(gs.N[i], Fraction(1, sc))
                raw.append(E.ite(E.le(case["min_size"], h), h, gs.N[i]) if clamp else h)
            else:
                raw.append(gs.N[i])
        K.ensure_eq("raw-size", res._size, raw, text="C03: size halved `levels` times along the requested axes, kept fractional; an axis that would fall below min_size keeps its size")
        keeps_pose(K, res, gs)
        rs = spec_of(K, res)
        if ac:
            K.ensure_eq("first-sample", world_of_index(rs, [E.ZERO] * D), world_of_index(gs, [E.ZERO] * D), text=Q3R + " [corner sample positions kept]")
            K.ensure_eq("last-sample", world_of_index(rs, [E.sub(n, 1) for n in rs.N]), world_of_index(gs, [E.sub(n, 1) for n in gs.N]), text=Q3R + " [corner sample positions kept]")
        else:
            K.ensure_eq("extent", [E.mul(a, b) for a, b in zip(rs.s, rs.N)], [E.mul(a, b) for a, b in zip(gs.s, gs.N)], text=Q3R + " [physical extent kept]")
        if not clamp:
            up = K.call(res.upsample, k, dims=dims)
            if K.ensure_returns(up, text=Q3S):
                t = "C03: downsample followed by upsample returns the original grid whenever no axis was clamped"
                K.ensure_eq("du-size", up._size, gs.N, text=t)
                K.ensure_eq("du-spacing", up.spacing(), gs.s, text=t)
                K.ensure_eq("du-center", up.center(), gs.c, text=t)
                K.ensure_eq("du-direction", up.direction(), gs.R, text=t)


@register
class GridResample:
    target = "deepali.core.grid:Grid.resample"
    properties = ("C03",)

    def cases(self, tier):
        for D in (2, 3):
            for how in ("vector", "scalar", "min", "max"):
                for ac in (True, False):
                    for min_size in (1, 4):
                        yield {"D": D, "spacing": how, "align_corners": ac, "min_size": min_size}

    def run(self, case, K):
        D = case["D"]
        g, gs = make_grid(K, "g", D, align_corners=case["align_corners"])
        how = case["spacing"]
        if how == "vector":
            ns = [K.real(f"ns{i}", draw=(Fraction(1, 4), 4)) for i in range(D)]
            arg = K.tensor(ns)
        elif how == "scalar":
            v = K.real("ns", draw=(Fraction(1, 4), 4))
            ns = [v] * D
            arg = K.tensor(v)
        else:
            f = E.min_ if how == "min" else E.max_
            v = gs.s[0]
            for x in gs.s[1:]:
                v = f(v, x)
            ns = [v] * D
            arg = how
        for v in set(ns):
            if how in ("vector", "scalar"):
                K.assume(E.lt(E.ZERO, v))
        res = K.call(g.resample, arg, min_size=case["min_size"])
        if not K.ensure_returns(res, text=Q3S):
            return
        keeps_pose(K, res, gs)
        same = res is g
        if same:
            # the code returns the same grid when the requested spacing is (all)close to the current one
            K.note("resample returned self (spacing within allclose band)")
            return
        K.ensure_eq("spacing", res.spacing(), ns, text="C03 (resampling): the requested spacing is set")
        raw = [E.max_(E.div(E.mul(s, n), t), case["min_size"]) for s, n, t in zip(gs.s, gs.N, ns)]
        K.ensure_eq("raw-size", res._size, raw, text="C03 (resampling): size = old extent / new spacing (kept fractional), at least min_size")
        n2 = list(K.val(res.size_tensor()))
        for i in range(D):
            ext_old = E.mul(gs.s[i], gs.N[i])
            ext_new = E.mul(ns[i], n2[i])
            K.ensure(f"covers[{i}]", lambda sl, a=ext_old, b=ext_new: E.le(a, E.add(b, sl * 100)), text="C03 (resampling): the new grid covers the old extent", slack=1e-5)
            if case["min_size"] == 1:
                K.ensure(f"tight[{i}]", lambda sl, a=ext_old, b=ext_new, t=ns[i]: E.or_(E.lt(b, E.add(a, t, sl * 100)), E.le(b, t)),
                         text="C03 (resampling): ... and exceeds it by less than one new spacing", slack=1e-5)


def margin_forms(D):
    """(description, kwargs/args builder, lo per axis, hi per axis)"""
    if D == 2:
        nums = [(1, 2, 0, 1), (0, 0, 2, 1), (-1, 1, 1, -2), (1, 1)]
        margins = [(1, 2), (-1, 1), (2,)]
    else:
        nums = [(1, 2, 0, 1, 1, 0), (-1, 0, 2, 1, 0, -1), (0, 1)]
        margins = [(1, 0, 2), (-1, 1, 0)]
    out = []
    for num in nums:
        full = tuple(num) + (0,) * (2 * D - len(num))
        out.append((f"num={num}", (), {"num": num}, list(full[0::2]), list(full[1::2])))
    for mg in margins:
        if len(mg) == D:
            out.append((f"margin={mg}", (), {"margin": mg}, list(mg), list(mg)))
            out.append((f"args={mg}", tuple(mg), {}, list(mg), list(mg)))
    out.append(("num=1", (), {"num": 1}, [1] * D, [1] * D))
    out.append(("margin=-1", (), {"margin": -1}, [-1] * D, [-1] * D))
    return out


@register
class GridCropPad:
    target = "deepali.core.grid:Grid.crop"
    properties = ("C03",)

    def cases(self, tier):
        for D in (2, 3):
            for fn in ("crop", "pad"):
                for i, form in enumerate(margin_forms(D)):
                    for ac in ((True, False) if i == 0 else (True,)):
                        yield {"D": D, "fn": fn, "form": form[0], "align_corners": ac}
        # chains: crop / pad of a pyramid level of an odd-sized grid (stored size fractional, 9 x 7 -> 4.5 x 3.5 = 5 x 4 samples)
        for fn in ("crop", "pad"):
            for form in margin_forms(2)[:2]:
                yield {"D": 2, "fn": fn, "form": form[0], "align_corners": True, "base": "downsampled"}

    def run(self, case, K):
        D = case["D"]
        form = [f for f in margin_forms(D) if f[0] == case["form"]][0]
        _, args, kwargs, lo, hi = form
        sgn = 1 if case["fn"] == "crop" else -1
        if case.get("base") == "downsampled":
            g0, _ = make_grid(K, "g", D, sizes=(9, 7), align_corners=True)
            g = g0.downsample()
            gs = spec_of(K, g, N=[E.const(5), E.const(4)])
            res = K.call(getattr(g, case["fn"]), *args, **kwargs)
            if not K.ensure_returns(res, text=Q3S):
                return
            K.ensure_eq("size", res.size_tensor(), [E.sub(gs.N[i], sgn * (lo[i] + hi[i])) for i in range(D)], text="C03: crop/pad remove/add the given number of samples at each border")
            same_frame(K, res, gs, [E.const(sgn * v) for v in lo], tag="-chain")
            return
        g, gs = make_grid(K, "g", D, align_corners=case["align_corners"], nmin=1)
        # valid request: at least one sample remains on every axis
        newN = [E.sub(gs.N[i], sgn * (lo[i] + hi[i])) for i in range(D)]
        for v in newN:
            K.assume(E.le(1, v))
        res = K.call(getattr(g, case["fn"]), *args, **kwargs)
        if not K.ensure_returns(res, text=Q3S):
            return
        K.ensure_eq("size", res.size_tensor(), newN, text="C03: crop/pad remove/add the given number of samples at each border")
        same_frame(K, res, gs, [E.const(sgn * v) for v in lo])
        if any(a != b for a, b in zip(lo, hi)):
            bad = world_of_index(gs, [E.const(sgn * v) for v in hi])
            K.ensure_eq("mustfail", res.origin(), bad, text="origin computed from the upper margin", must_fail=True)


SIZES = {2: [(5, 6), (4, 9)], 3: [(5, 6, 4)]}


@register
class GridIndexOps:
    """narrow, center_crop, center_pad, region_of_interest: these read the size as Python ints, so sizes are cases."""

    target = "deepali.core.grid:Grid.region_of_interest"
    properties = ("C03",)

    def cases(self, tier):
        for D in (2, 3):
            for size in SIZES[D]:
                for d in range(D):
                    yield {"D": D, "size": list(size), "fn": "narrow", "dim": d, "start": 1, "length": 2}
                for tgt in ([3] * D, [max(size) + 2] * D, [size[0] - 1] + [size[i] + 1 for i in range(1, D)], 4):
                    yield {"D": D, "size": list(size), "fn": "center_crop", "target": tgt}
                    yield {"D": D, "size": list(size), "fn": "center_pad", "target": tgt}
                yield {"D": D, "size": list(size), "fn": "roi", "start": [1] * D, "roi_size": [2] * D}
                yield {"D": D, "size": list(size), "fn": "roi", "start": list(range(D)), "roi_size": [size[i] - i for i in range(D)]}

    def run(self, case, K):
        D, size = case["D"], case["size"]
        g, gs = make_grid(K, "g", D, sizes=size)
        fn = case["fn"]
        if fn == "narrow":
            res = K.call(g.narrow, case["dim"], case["start"], case["length"])
            lo = [case["start"] if i == case["dim"] else 0 for i in range(D)]
            newN = [case["length"] if i == case["dim"] else size[i] for i in range(D)]
        elif fn in ("center_crop", "center_pad"):
            tgt = case["target"]
            t = [tgt] * D if isinstance(tgt, int) else tgt
            res = K.call(getattr(g, fn), tgt)
            if fn == "center_crop":
                newN = [min(a, b) for a, b in zip(size, t)]
                lo = [(a - b) // 2 for a, b in zip(size, newN)]
            else:
                newN = [max(a, b) for a, b in zip(size, t)]
                lo = [-((b - a) // 2) for a, b in zip(size, newN)]
        else:
            res = K.call(g.region_of_interest, case["start"], case["roi_size"])
            lo, newN = case["start"], case["roi_size"]
        if not K.ensure_returns(res, text=Q3S):
            return
        K.ensure_eq("size", res.size_tensor(), newN, text="C03: the derived grid has the documented size")
        same_frame(K, res, gs, [E.const(v) for v in lo])


@register
class GridPool:
    target = "deepali.core.grid:Grid.pool"
    properties = ("C03",)

    def cases(self, tier):
        for D in (2, 3):
            for ks in (2, 3, tuple([2, 3, 2][:D])):
                for ceil_mode in (False, True):
                    for fn in ("pool", "avg_pool"):
                        yield {"D": D, "kernel": ks, "ceil_mode": ceil_mode, "fn": fn}

    def run(self, case, K):
        D = case["D"]
        ks = case["kernel"]
        k = [ks] * D if isinstance(ks, int) else list(ks)
        g, gs = make_grid(K, "g", D, nmin=max(k))
        res = K.call(getattr(g, case["fn"]), ks, ceil_mode=case["ceil_mode"])
        if not K.ensure_returns(res, text=Q3S):
            return
        q = [E.div(n, kk) for n, kk in zip(gs.N, k)]
        newN = [E.ceil(v) if case["ceil_mode"] else E.floor(v) for v in q]
        K.ensure_eq("size", res.size_tensor(), newN, text="C03 (pooling): floor (ceil in ceil_mode) of size / kernel samples")
        K.ensure_eq("spacing", res.spacing(), [E.mul(s, kk) for s, kk in zip(gs.s, k)], text="C03 (pooling): spacing multiplied by the kernel size")
        K.ensure_eq("direction", res.direction(), gs.R, text=Q3C + " [orientation kept]")
        K.ensure_eq("origin", res.origin(), world_of_index(gs, [E.const(Fraction(kk - 1, 2)) for kk in k]),
                    text=Q3C + " [a pooled sample sits at the mean position of the samples it pools]")


@register
class GridPyramid:
    target = "deepali.core.grid:Grid.pyramid"
    properties = ("C03",)
    PSIZES = {2: [(9, 7), (16, 16), (5, 33)], 3: [(9, 8, 5)]}

    def cases(self, tier):
        for D in (2, 3):
            for size in self.PSIZES[D]:
                for levels in (1, 2, 3):
                    for ac in (True, False):
                        for min_size in (0, 4):
                            for dims in (None, (0,)):
                                if tier == "quick" and dims and (levels != 2 or min_size):
                                    continue
                                yield {"D": D, "size": list(size), "levels": levels, "align_corners": ac, "min_size": min_size, "dims": dims}

    def run(self, case, K):
        D, size = case["D"], case["size"]
        ac = case["align_corners"]
        g, gs = make_grid(K, "g", D, sizes=size, align_corners=ac)
        res = K.call(g.pyramid, case["levels"], dims=case["dims"], min_size=case["min_size"])
        if not K.ensure_returns(res, text=Q3S):
            return
        K.ensure("levels", E.bconst(sorted(res.keys()) == list(range(case["levels"] + 1))), text="one grid per level 0..levels", kind="helper")
        ext0 = cube_extent(gs, ac)
        prev = None
        axes = list(range(D)) if not case["dims"] else list(case["dims"])
        for lvl in sorted(res.keys()):
            gl = res[lvl]
            sl = spec_of(K, gl)
            t = "C03: all levels cover the same domain (center, orientation and, per align_corners, corner positions / extent)"
            K.ensure_eq(f"center[{lvl}]", gl.center(), gs.c, text=t)
            K.ensure_eq(f"direction[{lvl}]", gl.direction(), gs.R, text=t)
            K.ensure_eq(f"cube-extent[{lvl}]", cube_extent(sl, ac), ext0, text=t)
            n = [int(v) for v in gl.size()]
            if prev is not None:
                ok = all(n[i] <= prev[i] for i in range(D)) and all(n[i] == prev[i] for i in range(D) if i not in axes)
                ok = ok and all(n[i] >= case["min_size"] or n[i] == prev[i] for i in axes)
                K.ensure(f"sizes[{lvl}]", E.bconst(ok), text="C03: sizes do not increase with the level and are not reduced below min_size")
            prev = n


@register
class GridFloatChains:
    """Bounded (float32, as the library computes): chains of up to 3 derivations never raise an internal consistency error,
    and retained / corner samples keep their world position."""

    target = "deepali.core.grid:Grid._resize"
    properties = ("C03",)
    symbolic = False
    n_bounded = {"quick": 150, "thorough": 1500}
    tol = 2e-3

    def cases(self, tier):
        for D in (2, 3):
            for ac in (True, False):
                yield {"D": D, "align_corners": ac}

    OPS = ("resize", "downsample", "upsample", "crop", "pad", "resample", "pool", "center_crop", "pyramid")

    def run(self, case, K):
        from deepali.core.grid import Grid

        D = case["D"]
        r = K.rng
        N = [r.randint(2, 400 if D == 2 else 60) for _ in range(D)]
        s = [r.uniform(0.05, 20) for _ in range(D)]
        c = [r.uniform(-1000, 1000) for _ in range(D)]
        K.env.update({f"N{i}": Fraction(N[i]) for i in range(D)})
        K.env.update({f"s{i}": s[i] for i in range(D)})
        K.env.update({f"c{i}": c[i] for i in range(D)})
        if D == 2:
            a = r.uniform(-3.14, 3.14)
            R = torch.tensor([[np.cos(a), -np.sin(a)], [np.sin(a), np.cos(a)]], dtype=torch.float64)
        else:
            q = torch.tensor([r.gauss(0, 1) for _ in range(4)], dtype=torch.float64)
            from deepali.core.linalg import quaternion_to_rotation_matrix

            R = quaternion_to_rotation_matrix(q)
        g = Grid(size=N, spacing=s, center=c, direction=R.float(), align_corners=case["align_corners"])
        chain = [r.choice(self.OPS) for _ in range(r.randint(1, 3))]
        K.env["chain"] = ",".join(chain)
        for op in chain:
            n = list(g.size())
            if min(n) < 2:
                break
            if op == "resize":
                a = (tuple(r.randint(2, 300 if D == 2 else 40) for _ in range(D)),)
                kw = {}
            elif op in ("downsample", "upsample"):
                lv = r.randint(1, 2)
                if op == "downsample" and min(n) / 2 ** lv < 2:
                    continue
                if op == "upsample" and max(n) * 2 ** lv > 2000:
                    continue
                a, kw = (lv,), {}
            elif op in ("crop", "pad"):
                num = [r.randint(-2, 2) for _ in range(2 * D)]
                sgn = 1 if op == "crop" else -1
                if any(n[i] - sgn * (num[2 * i] + num[2 * i + 1]) < 2 for i in range(D)):
                    continue
                a, kw = (), {"num": num}
            elif op == "resample":
                a, kw = (r.choice(["min", "max", r.uniform(0.1, 10)]),), {}
            elif op == "pool":
                a, kw = (2,), {}
            elif op == "center_crop":
                a, kw = (tuple(max(2, v - r.randint(0, 3)) for v in n),), {}
            else:
                lv = r.randint(1, 3)
                if min(n) / 2 ** lv < 2:
                    continue
                a, kw = (lv,), {}
            res = K.call(getattr(g, op), *a, **kw)
            if not K.ensure_returns(res, text=Q3S + f" [{op}{a}{kw} on size {n}]"):
                return
            if op == "pyramid":
                res = res[max(res.keys())]
            if op in ("crop", "pad", "center_crop"):
                K.ensure_eq("spacing", res.spacing(), g.spacing(), text=Q3C)
            if op in ("resize", "downsample", "upsample", "pyramid", "resample"):
                K.ensure_eq("center", res.center().double() - g.center().double(), np.zeros(D), text=Q3R, tol=1e-3 * max(1.0, float(g.extent().max())))
            g = res
