"""C04 / C05 - image operations move voxel data and sampling grid in lock-step; resampling onto any oriented grid
matches an independent reference (deepali.data.image, deepali.core.image)."""
from __future__ import annotations

import itertools
import math
from fractions import Fraction

import numpy as np
import torch

from contracts.c03_derived import world_of_index
from contracts.common import make_grid, outside_eq_band
from spec import grid as SG
from vc import expr as E
from vc.contract import Raised, register

Q4S = "C04: the returned object's grid has the shape of its data"
Q4I = "C04: index-only operations return exactly the original values at the original world positions"
Q4R = ("C04: an image whose intensity is a linear function of world position is returned as the same linear function of the new grid's "
       "world positions (inside the original field of view)")
Q5 = ("C05: sampling an image on an arbitrary target grid yields at every target sample inside the source field of view the value an "
      "independent implementation computes from the same headers")

SIZE = (5, 4)           # (x, y)
SHAPE = (4, 5)
N = 2


def batch_with_grids(K, values, per_item=True, ac=True):
    """ImageBatch of N=2 images with *different* symbolic grids (same concrete size)"""
    from deepali.data import ImageBatch

    g1, s1 = make_grid(K, "g", 2, sizes=SIZE, align_corners=ac)
    if per_item:
        g2, s2 = make_grid(K, "h", 2, sizes=SIZE, align_corners=ac)
        outside_eq_band(K, s1, s2)
    else:
        g2, s2 = g1, s1
    return ImageBatch(K.tensor(values), [g1, g2]), [s1, s2]


def ramp(K, specs, shape=SHAPE):
    """intensity a.x_world + b per image, on each image's own grid; returns (values (N,1,*shape), [(a, b)])"""
    vals = np.empty((len(specs), 1) + tuple(shape), dtype=object)
    coef = []
    for n, gs in enumerate(specs):
        a = [K.real(f"a{n}{d}") for d in range(gs.D)]
        b = K.real(f"b{n}")
        coef.append((a, b))
        for idx in np.ndindex(*shape):
            w = world_of_index(gs, [E.const(idx[gs.D - 1 - d]) for d in range(gs.D)])
            vals[(n, 0) + idx] = E.add(b, *[E.mul(a[d], w[d]) for d in range(gs.D)])
    return vals, coef


def grid_spec_of(K, g):
    from contracts.c03_derived import spec_of

    return spec_of(K, g)


INDEX_OPS = {
    "crop-margin": ("crop", dict(margin=(1, 0)), [1, 0], None),
    "crop-num": ("crop", dict(num=(1, 0, 0, 2)), [1, 0], None),
    "crop-negative": ("crop", dict(num=(-1, 1, 0, 0)), [-1, 0], None),
    "pad-num": ("pad", dict(num=(1, 2, 0, 1)), [-1, 0], None),
    "pad-margin": ("pad", dict(margin=(0, 1)), [0, -1], None),
    "center_crop": ("center_crop", ((3, 2),), None, None),
    "center_pad": ("center_pad", ((6, 7),), None, None),
    "roi": ("region_of_interest", ((1, 1), (3, 2)), [1, 1], None),
    "narrow-x": ("narrow", (3, 1, 3), [1, 0], None),
    "narrow-y": ("narrow", (2, 1, 2), [0, 1], None),
}


@register
class ImageIndexOps:
    target = "deepali.data.image:ImageBatch.crop"
    properties = ("C04",)

    def cases(self, tier):
        for op in INDEX_OPS:
            for kind in ("batch", "image"):
                yield {"op": op, "kind": kind}

    def run(self, case, K):
        name, arg, lo, _ = INDEX_OPS[case["op"]]
        ev = K.reals("v", (N, 1) + SHAPE)
        batch, specs = batch_with_grids(K, ev)
        obj = batch if case["kind"] == "batch" else batch[0]
        fn = getattr(obj, name)
        if case["kind"] == "image" and name == "narrow":
            arg = (arg[0] - 1,) + tuple(arg[1:])  # Image tensors have no batch dimension
        res = K.call(fn, **arg) if isinstance(arg, dict) else K.call(fn, *arg)
        if not K.ensure_returns(res, text="C04: the operation is available for 2-D images and batches with per-image grids"):
            return
        data = K.val(res.tensor())
        if case["kind"] == "image":
            data = data[None]
        grids = list(res.grids()) if case["kind"] == "batch" else [res.grid()]
        osh = data.shape[2:]
        if name == "center_crop":
            lo = [(SIZE[0] - 3) // 2, (SIZE[1] - 2) // 2]
        if name == "center_pad":
            lo = [-((6 - SIZE[0]) // 2), -((7 - SIZE[1]) // 2)]
        for k, g in enumerate(grids):
            K.ensure(f"shape[{k}]", E.bconst(tuple(g.shape) == tuple(osh)), text=Q4S)
            gs = specs[k]
            K.ensure_eq(f"spacing[{k}]", g.spacing(), gs.s, text=Q4I + " [spacing kept, per image]")
            K.ensure_eq(f"direction[{k}]", g.direction(), gs.R, text=Q4I + " [orientation kept, per image]")
            K.ensure_eq(f"origin[{k}]", g.origin(), world_of_index(gs, [E.const(v) for v in lo]), text=Q4I + " [new sample j is old sample j + lower margin of THIS image's grid]")
            # data: retained voxels are the original values
            for idx in np.ndindex(*osh):
                src = (idx[0] + lo[1], idx[1] + lo[0])
                if 0 <= src[0] < SHAPE[0] and 0 <= src[1] < SHAPE[1]:
                    K.ensure_eq(f"value[{k}]{list(idx)}", data[(k, 0) + idx], ev[(k, 0) + src], text=Q4I + " [data and grid agree on margin order and sign]")


INTERP_OPS = {
    "resize": ("resize", ((7, 5),), {}),
    "resize-ac-false": ("resize", ((7, 5),), {"align_corners": False}),
    "upsample": ("upsample", (1,), {}),
    "downsample": ("downsample", (1,), {"sigma": 0}),
    "avg_pool": ("avg_pool", (2,), {}),
    "resample": ("resample", (), {}),
    "sample-finer": ("sample", (), {}),
}


@register
class ImageInterpolatingOps:
    target = "deepali.data.image:ImageBatch.resize"
    properties = ("C04",)
    tol = 5e-4

    def cases(self, tier):
        for op in INTERP_OPS:
            for ac in (True, False):
                yield {"op": op, "grid_align_corners": ac}

    def run(self, case, K):
        from deepali.data import ImageBatch

        name, args, kw = INTERP_OPS[case["op"]]
        ac = case["grid_align_corners"]
        g1, s1 = make_grid(K, "g", 2, sizes=SIZE, align_corners=ac)
        if name == "resample":
            specs = [s1, s1]
            grids = [g1, g1]
        else:
            g2, s2 = make_grid(K, "h", 2, sizes=SIZE, align_corners=ac)
            outside_eq_band(K, s1, s2)
            specs, grids = [s1, s2], [g1, g2]
        vals, coef = ramp(K, specs)
        batch = ImageBatch(K.tensor(vals), grids)
        if name == "resample":
            # halve the spacing along x only (so that no rounding of sizes is involved): new spacing (s0/2, s1)
            res = K.call(batch.resample, K.tensor([E.mul(s1.s[0], Fraction(1, 2)), s1.s[1]]))
        elif name == "sample":
            tg = [g.resize((9, 7)) for g in grids]
            res = K.call(batch.sample, tg)
        else:
            res = K.call(getattr(batch, name), *args, **kw)
        if not K.ensure_returns(res):
            return
        data = K.val(res.tensor())
        osh = data.shape[2:]
        for k, g in enumerate(res.grids()):
            K.ensure(f"shape[{k}]", E.bconst(tuple(g.shape) == tuple(osh)), text=Q4S)
            ns = grid_spec_of(K, g)
            a, b = coef[k]
            # voxels of the new grid that lie inside the hull of the old samples (decided at the witness, then required)
            for idx in np.ndindex(*osh):
                w = world_of_index(ns, [E.const(idx[1]), E.const(idx[0])])
                # position in old index coordinates
                A, t = SG.point_map(specs[k], "world", specs[k], "grid")
                old = SG.matvec(A, w)
                old = [E.add(old[d], t[d]) for d in range(2)]
                inside = all(0 <= float(K.value(old[d])) <= SIZE[d] - 1 for d in range(2))
                if not inside:
                    continue
                if K.mode == "sym":
                    ok = True
                    for d in range(2):
                        cv = K.run.ring.const_value(old[d]) if E.size(old[d]) < 4000 else None
                        if cv is None or not (0 <= cv <= SIZE[d] - 1):
                            ok = False
                    if not ok:
                        continue
                want = E.add(b, *[E.mul(a[d], w[d]) for d in range(2)])
                if name in ("sample", "resample"):  # these paths round the (concrete) sample coordinates to 12 decimals
                    K.ensure_close(f"ramp[{k}]{list(idx)}", data[(k, 0) + idx], want, text=Q4R)
                else:
                    K.ensure_eq(f"ramp[{k}]{list(idx)}", data[(k, 0) + idx], want, text=Q4R)


@register
class ImageConv:
    target = "deepali.data.image:ImageBatch.conv"
    properties = ("C04",)
    tol = 5e-4

    def cases(self, tier):
        yield {"kernel": "1d-none"}
        yield {"kernel": "1d-zeros"}

    def run(self, case, K):
        from deepali.core.enum import PaddingMode
        from deepali.data import ImageBatch

        g1, s1 = make_grid(K, "g", 2, sizes=SIZE)
        g2, s2 = make_grid(K, "h", 2, sizes=SIZE)
        outside_eq_band(K, s1, s2)
        vals, coef = ramp(K, [s1, s2])
        batch = ImageBatch(K.tensor(vals), [g1, g2])
        kernel = torch.tensor([0.25, 0.5, 0.25])
        pad = PaddingMode.NONE if case["kernel"] == "1d-none" else PaddingMode.ZEROS
        res = K.call(batch.conv, kernel, padding=pad)
        if not K.ensure_returns(res):
            return
        data = K.val(res.tensor())
        osh = data.shape[2:]
        lost = [(SHAPE[i] - osh[i]) // 2 for i in range(2)]
        for k, g in enumerate(res.grids()):
            K.ensure(f"shape[{k}]", E.bconst(tuple(g.shape) == tuple(osh)), text=Q4S)
            ns = grid_spec_of(K, g)
            a, b = coef[k]
            for idx in np.ndindex(*osh):
                # interior of the convolution (a symmetric normalised kernel reproduces a linear ramp where no padding enters)
                src = (idx[0] + lost[0], idx[1] + lost[1])
                if not (1 <= src[0] < SHAPE[0] - 1 and 1 <= src[1] < SHAPE[1] - 1):
                    continue
                w = world_of_index(ns, [E.const(idx[1]), E.const(idx[0])])
                K.ensure_eq(f"ramp[{k}]{list(idx)}", data[(k, 0) + idx], E.add(b, *[E.mul(a[d], w[d]) for d in range(2)]), text=Q4R + " [convolution: grid cropped by the lost border]")


# ---------------------------------------------------------------------------------------------------------- C05
def rational_grid(K, name, D, size, ac, near=None, fine=False):
    """a concrete oriented anisotropic grid with rational attributes (seeded), returned with its spec;
    ``near``: centre close to this point (so that the two grids of a pair overlap)"""
    from deepali.core.grid import Grid

    r = K.rng
    s = [Fraction(r.randint(3, 6) if fine else r.randint(6, 12), 8) for _ in range(D)]
    c = [Fraction(r.randint(-8, 8), 4) for _ in range(D)]
    if near is not None:
        c = [near[d] + Fraction(r.randint(-2, 2), 8) for d in range(D)]
    if D == 2:
        t = Fraction(r.randint(-6, 6), 8)
        R = SG.rotation2(E.const(t))
    else:
        q = [E.const(Fraction(r.randint(-4, 4), 4)) for _ in range(4)]
        if all(v is E.ZERO for v in q):
            q[0] = E.ONE
        R, _ = SG.rotation3(q)
    Rv = np.array([[float(K.value(v)) for v in row] for row in R])
    Rq = SG.mat([[E.const(E.evaluate(v, {})) for v in row] for row in R])
    g = Grid(size=size, spacing=[float(v) for v in s], center=[float(v) for v in c], direction=torch.tensor(Rv, dtype=torch.float64).float(), align_corners=ac)
    return g, SG.GridSpec([E.const(n) for n in size], [E.const(v) for v in s], [E.const(v) for v in c], Rq, ac)


@register
class SampleOnOrientedGrid:
    """Fixed (seeded, rational) geometry, *all image contents*: every target voxel inside the source hull equals the
    multilinear / nearest interpolant of the source voxels at the location the specification maps it to."""

    target = "deepali.data.image:ImageBatch.sample"
    properties = ("C05", "C04")
    tol = 2e-3

    APIS = ("ImageBatch.sample", "batch-of-2:target=grid-of-item-0", "SampleImage", "TransformImage", "AlignImage")

    def cases(self, tier):
        for D in (2, 3):
            for mode in ("linear", "nearest"):
                for acs in (True, False):
                    for act in (True, False):
                        for k in range(2 if tier == "quick" else 6):
                            if tier == "quick" and D == 3 and (k or mode == "nearest"):
                                continue
                            yield {"D": D, "mode": mode, "source_ac": acs, "target_ac": act, "geometry": k}
        # the same specification through the other entry points (module API with its precomputed target->source matrix;
        # batch whose first item already lies on the target grid)
        for api in self.APIS[1:]:
            for D in (2, 3):
                for acs in (True, False):
                    for act in (True, False):
                        if tier == "quick" and D == 3 and acs == act:
                            continue
                        yield {"D": D, "mode": "linear", "source_ac": acs, "target_ac": act, "geometry": 0, "api": api}
        # module API with an explicit `axes` argument that differs from the target grid's own cube convention
        for api in ("SampleImage", "TransformImage", "AlignImage"):
            for act in (True, False):
                yield {"D": 2, "mode": "linear", "source_ac": True, "target_ac": act, "geometry": 0, "api": api, "axes": "cube" if act else "cube_corners"}

    def run(self, case, K):
        from deepali.data import ImageBatch

        D = case["D"]
        api = case.get("api", self.APIS[0])
        K.rng.seed(1000 * case["geometry"] + 17 * D + (3 if case["source_ac"] else 0) + (5 if case["target_ac"] else 0))
        ssz = (5, 4) if D == 2 else (3, 4, 3)
        tsz = (4, 6) if D == 2 else (3, 3, 2)
        if api.startswith("batch-of-2"):
            tsz = ssz  # items of one batch have the same data shape
        src, ss = rational_grid(K, "s", D, ssz, case["source_ac"])
        tgt, ts = rational_grid(K, "t", D, tsz, case["target_ac"], near=[E.evaluate(v, {}) for v in ss.c], fine=True)
        # move the target near the source centre and make it small enough to overlap
        shape = ssz[::-1]
        ev = K.reals("v", (1, 1) + shape)
        oshape = tsz[::-1]
        if api == "ImageBatch.sample":
            batch = ImageBatch(K.tensor(ev), src)
            res = K.call(batch.sample, tgt, mode=case["mode"], padding=0)
            if not K.ensure_returns(res):
                return
            data = K.val(res.tensor())
            K.ensure("shape", E.bconst(tuple(data.shape[2:]) == oshape and tuple(res.grid().shape) == oshape), text=Q4S)
        elif api.startswith("batch-of-2"):
            e0 = K.reals("w", (1, 1) + shape)
            batch = ImageBatch(K.tensor(np.concatenate([e0, ev], axis=0)), [tgt, src])
            res = K.call(batch.sample, tgt, mode=case["mode"], padding=0)
            if not K.ensure_returns(res):
                return
            full = K.val(res.tensor())
            K.ensure("grids", E.bconst(all(g == tgt for g in res.grids()) and len(res.grids()) == 2), text=Q5 + " [every image of the result lies on the target grid]")
            K.ensure_eq("item-0-unchanged", full[0:1], e0, text=Q5 + " [the image that already lies on the target grid is returned unchanged]")
            data = full[1:2]
        else:
            import deepali.modules as M

            x = K.tensor(ev)
            from deepali.core.grid import Axes

            kwa = {"axes": Axes(case["axes"])} if "axes" in case else {}
            if api == "SampleImage":
                m = M.SampleImage(tgt, src, sampling=case["mode"], padding=0, **kwa)
                pts = tgt.coords(align_corners=(case["axes"] == "cube_corners")) if "axes" in case else tgt.coords()
                res = K.call(m, pts, x)
            elif api == "TransformImage":
                m = M.TransformImage(tgt, src, sampling=case["mode"], padding=0, **kwa)
                res = K.call(m, None, x)
            else:
                m = M.AlignImage(tgt, src, sampling=case["mode"], padding=0, **kwa)
                res = K.call(m, None, x)
            if not K.ensure_returns(res):
                return
            data = K.val(res)
            K.ensure("shape", E.bconst(tuple(data.shape[2:]) == oshape), text=Q4S)
        A, t = SG.point_map(ts, "grid", ss, "grid")
        ninside = 0
        for idx in np.ndindex(*oshape):
            j = [Fraction(idx[D - 1 - d]) for d in range(D)]
            pos = [E.evaluate(E.add(t[d], *[E.mul(A[d, e], j[e]) for e in range(D)]), {}) for d in range(D)]  # source index coords (x, ..)
            if case["mode"] == "nearest":
                # exclude ties at cell borders
                if any(abs((p % 1) - Fraction(1, 2)) < Fraction(1, 50) for p in pos):
                    continue
            margin = Fraction(1, 1000)
            if not all(margin <= p <= ssz[d] - 1 - margin for d, p in enumerate(pos)):
                continue
            ninside += 1
            if case["mode"] == "nearest":
                nidx = tuple(int(round(pos[D - 1 - a])) for a in range(D))
                want = ev[(0, 0) + nidx]
            else:
                want = E.ZERO
                lows = [math.floor(p) for p in pos]
                for corner in itertools.product((0, 1), repeat=D):
                    w = Fraction(1)
                    ii = []
                    for d in range(D):
                        f = pos[d] - lows[d]
                        w *= f if corner[d] else 1 - f
                        ii.append(min(lows[d] + corner[d], ssz[d] - 1))
                    if w:
                        want = E.add(want, E.mul(ev[(0, 0) + tuple(ii[::-1])], w))
            got = data[(0, 0) + idx]
            if K.mode == "sym":
                # weights computed by the code in float32 differ from the exact rationals by rounding: compare coefficients
                d = E.sub(got, want)
                r = K.run.ring.normal(d)
                worst = max([abs(c) for c in r.num.values()] or [0])
                K.ensure(f"interp{list(idx)}", E.bconst(worst <= Fraction(1, 2000) and not r.den), text=Q5 + " [interpolation weights of every source voxel, within 5e-4 (float32 coordinates)]")
            else:
                K.ensure_eq(f"interp{list(idx)}", got, want, text=Q5)
        K.note(f"{ninside} target voxels inside the source field of view")
        K.ensure("overlap", E.bconst(ninside >= 2), text="the seeded geometry pair overlaps (vacuity guard)", kind="helper")


@register
class SampleIdentityAndCoords:
    target = "deepali.data.image:ImageBatch.sample"
    properties = ("C05",)

    def cases(self, tier):
        for D in (2, 3):
            yield {"D": D}

    def run(self, case, K):
        from deepali.data import ImageBatch

        D = case["D"]
        size = (4, 3) if D == 2 else (3, 2, 3)
        g, gs = make_grid(K, "g", D, sizes=size)
        ev = K.reals("v", (1, 1) + size[::-1])
        batch = ImageBatch(K.tensor(ev), g)
        same = K.call(batch.sample, g)
        K.ensure("own-grid", E.bconst(same is batch), text="C05: sampling an image on its own grid returns it unchanged")
        h = g.resize(tuple(2 * n - 1 for n in size))
        on_grid = K.call(batch.sample, h)
        coords = h.coords(align_corners=g.align_corners()).unsqueeze(0)
        on_coords = K.call(batch.sample, coords)
        if K.ensure_returns(on_grid) and K.ensure_returns(on_coords):
            K.ensure_close("coords==grid", on_coords, K.val(on_grid.tensor()), text="C05: sampling at explicit normalised coordinates agrees with sampling on the grid those coordinates came from")


@register
class SampleVsSimpleITK:
    """Bounded: differential against SimpleITK.Resample(identity) on Image.sitk()."""

    target = "deepali.data.image:ImageBatch.sample"
    properties = ("C05",)
    symbolic = False
    n_bounded = {"quick": 4, "thorough": 25}
    tol = 2e-3

    def cases(self, tier):
        for D in (2, 3):
            for mode in ("linear", "nearest"):
                for ac in (True, False):
                    yield {"D": D, "mode": mode, "align_corners": ac}

    def run(self, case, K):
        import SimpleITK as sitk

        from deepali.data import Image

        D = case["D"]
        ssz = tuple(K.rng.randint(6, 14) for _ in range(D))
        tsz = tuple(K.rng.randint(4, 10) for _ in range(D))
        src, ss = rational_grid(K, "s", D, ssz, case["align_corners"])
        tgt, ts = rational_grid(K, "t", D, tsz, not case["align_corners"], near=[E.evaluate(v, {}) for v in ss.c], fine=True)
        gen = torch.Generator().manual_seed(K.rng.randint(0, 1 << 30))
        K.env["seed"] = gen.initial_seed()
        data = torch.rand((1,) + ssz[::-1], generator=gen)
        im = Image(data, src)
        out = K.call(im.sample, tgt, mode=case["mode"], padding=-7.0)
        if not K.ensure_returns(out):
            return
        ref_grid = Image(torch.zeros((1,) + tsz[::-1]), tgt).sitk()
        interp = sitk.sitkLinear if case["mode"] == "linear" else sitk.sitkNearestNeighbor
        ref = sitk.Resample(im.sitk(), ref_grid, sitk.Transform(), interp, -7.0)
        refa = torch.from_numpy(sitk.GetArrayFromImage(ref)).unsqueeze(0)
        # target samples whose source position lies inside the hull of the source samples (computed from the headers by the spec)
        A, t = SG.point_map(ts, "grid", ss, "grid")
        inside = torch.zeros((1,) + tsz[::-1], dtype=torch.bool)
        for idx in np.ndindex(*tsz[::-1]):
            j = [Fraction(idx[D - 1 - d]) for d in range(D)]
            pos = [E.evaluate(E.add(t[d], *[E.mul(A[d, e], j[e]) for e in range(D)]), {}) for d in range(D)]
            ok = all(Fraction(1, 100) <= p <= ssz[d] - 1 - Fraction(1, 100) for d, p in enumerate(pos))
            if case["mode"] == "nearest":
                ok = ok and not any(abs((p % 1) - Fraction(1, 2)) < Fraction(1, 20) for p in pos)
            inside[(0,) + idx] = ok
        K.env["inside"] = int(inside.sum())
        K.ensure("overlap", E.bconst(int(inside.sum()) >= 2), text="the seeded geometry pair overlaps (vacuity guard)", kind="helper")
        if case["mode"] == "nearest":
            # ties at cell borders are excluded: compare only where both agree on being clearly inside a cell
            diff = (out.tensor() - refa).abs()
            frac = float(((diff < 1e-4) & inside).sum()) / max(1.0, float(inside.sum()))
            K.ensure("nearest-agreement", E.bconst(frac > 0.999 or int(inside.sum()) == 0), text=Q5 + f" [nearest neighbour, fraction of agreeing voxels {frac:.3f}]")
        else:
            err = float(((out.tensor() - refa).abs() * inside).max())
            K.env["max_err"] = err
            K.ensure("linear-agreement", E.bconst(err < 2e-3), text=Q5 + f" [linear, max abs difference inside the field of view {err:.2e}]")


@register
class ImagePyramid:
    """ImageBatch.pyramid on a batch of two images with *different* grids: every level is a batch whose image k lies on
    level l of the pyramid of image k's own grid (Grid.pyramid, under contract in C03), with data of that grid's shape."""

    target = "deepali.data.image:ImageBatch.pyramid"
    properties = ("C04", "C03")
    tol = 2e-4

    def cases(self, tier):
        for levels in (2, 3):
            yield {"levels": levels}

    def run(self, case, K):
        from deepali.data import ImageBatch

        D = 2
        size = (9, 6)
        g0, s0 = make_grid(K, "g", D, sizes=size)
        g1, s1 = make_grid(K, "h", D, sizes=size)
        ev = K.reals("v", (2, 1) + size[::-1])
        batch = ImageBatch(K.tensor(ev), [g0, g1])
        res = K.call(batch.pyramid, case["levels"])
        if not K.ensure_returns(res, text=Q4S):
            return
        K.ensure("levels", E.bconst(sorted(res.keys()) == list(range(case["levels"]))), text=Q4S + " [one batch per level]")
        for k, g in enumerate((g0, g1)):
            ref = g.pyramid(case["levels"])
            for lvl, b in res.items():
                gl = b.grid(k)
                K.ensure(f"shape[{lvl},{k}]", E.bconst(tuple(b.shape[2:]) == tuple(gl.shape) == tuple(ref[lvl].shape)), text=Q4S + " [data shape = grid shape = shape of that level]")
                K.ensure_eq(f"spacing[{lvl},{k}]", gl.spacing(), K.val(ref[lvl].spacing()), text=Q4S + f" [level {lvl} of image {k}: its own grid's pyramid level]")
                K.ensure_eq(f"center[{lvl},{k}]", gl.center(), K.val(ref[lvl].center()), text=Q4S + f" [level {lvl} of image {k}: position]")
                K.ensure_eq(f"direction[{lvl},{k}]", gl.direction(), K.val(ref[lvl].direction()), text=Q4S + f" [level {lvl} of image {k}: orientation]")
