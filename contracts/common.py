"""Shared builders for symbolic inputs."""
from __future__ import annotations

from fractions import Fraction

import numpy as np
import torch

from spec import grid as SG
from vc import expr as E

Q1 = "C01: converting points or displacement vectors between grid-index, normalised-cube (both align_corners conventions) and world coordinates is one consistent family of affine maps [...] the documented anchors hold (index 0 is the origin, index (n-1)/2 the center, cube-corner coordinates -1/+1 the first/last sample, cube coordinates -1/+1 half a sample beyond them)"


def direction(K, name: str, D: int, det: int = 1):
    """All orthogonal direction matrices of determinant ``det`` in rational parametrisation."""
    if D == 2:
        t = K.real(f"{name}.t", draw=(-3, 3))
        R = SG.rotation2(t)
    elif D == 3:
        q = [K.real(f"{name}.q{i}", draw=(-1, 1)) for i in range(4)]
        R, n2 = SG.rotation3(q)
        K.assume(E.lt(E.ZERO, n2))
    else:
        raise ValueError(D)
    if det < 0:
        F = SG.diag([1] * (D - 1) + [-1])
        R = SG.matmul(R, F)
    return R


def make_grid(K, name: str, D: int, det: int = 1, align_corners: bool = True, nmin: int = 2, nmax=None,
              sizes=None, axis_aligned: bool = False):
    """A fully symbolic grid: integer size N >= nmin (unbounded above unless nmax), spacing > 0, any center,
    any orientation.  Returns (real Grid object, GridSpec)."""
    from deepali.core.grid import Grid

    if sizes is not None:
        N = [E.const(n) for n in sizes]
    else:
        N = [K.int(f"{name}.N{i}", nmin, nmax, draw=(nmin, nmin + 9 if nmax is None else nmax)) for i in range(D)]
    s = [K.real(f"{name}.s{i}", draw=(Fraction(1, 4), 4)) for i in range(D)]
    for v in s:
        K.assume(E.lt(E.ZERO, v))
    c = [K.real(f"{name}.c{i}", draw=(-20, 20)) for i in range(D)]
    R = SG.eye(D) if axis_aligned else direction(K, name, D, det)
    g = Grid(size=K.tensor(N), spacing=K.tensor(s), center=K.tensor(c), direction=K.tensor(R), align_corners=align_corners)
    return g, SG.GridSpec(N, s, c, R, align_corners)


def outside_eq_band(K, a: SG.GridSpec, b: SG.GridSpec, rtol=1e-5, atol=1e-8):
    """requires: the two grids are not within the tolerance band in which Grid.__eq__ (allclose) treats them as one."""
    terms = []
    pairs = list(zip(a.N, b.N)) + list(zip(a.s, b.s)) + list(zip(a.c, b.c)) + list(zip(a.R.ravel(), b.R.ravel()))
    for x, y in pairs:
        terms.append(E.lt(E.add(E.const(atol), E.mul(E.const(rtol), E.max_(E.abs_(x), E.abs_(y)))), E.abs_(E.sub(x, y))))
    K.assume(E.or_(*terms))


def cube_extent(gs, align_corners):
    return [E.mul(s, E.sub(n, 1) if align_corners else n) for s, n in zip(gs.s, gs.N)]


def outside_cube_band(K, a, ac_a, b, ac_b, rtol=1e-5, atol=1e-8):
    """requires: the cubes of the two grids are not within the allclose band in which Cube.__eq__ treats them as one."""
    terms = []
    pairs = list(zip(cube_extent(a, ac_a), cube_extent(b, ac_b))) + list(zip(a.c, b.c)) + list(zip(a.R.ravel(), b.R.ravel()))
    for x, y in pairs:
        terms.append(E.lt(E.add(E.const(atol), E.mul(E.const(rtol), E.max_(E.abs_(x), E.abs_(y)))), E.abs_(E.sub(x, y))))
    K.assume(E.or_(*terms))


def as_affine(K, res):
    """Read a returned transformation as the affine map it denotes: (D, D) -> linear part with zero offset,
    (D, D+1) as is.  (Which of the two accepted shapes a function returns is not part of any property.)"""
    a = K.val(res)
    if a.ndim == 2 and a.shape[0] == a.shape[1]:
        z = np.empty((a.shape[0], 1), dtype=object)
        z[:, 0] = E.ZERO if K.mode == "sym" else K.val(0.0)[()]
        a = np.concatenate([a, z], axis=1)
    return a
