"""Sidecar contracts for BioMedIA/deepali, one module per group of functions; nothing is written into /repo."""

MODULES = {
    "C01": ["contracts.c01_grid"],
    "C02": ["contracts.c02_itk"],
    "C03": ["contracts.c03_derived"],
    "C04": ["contracts.c04_c05_images"],
    "C05": ["contracts.c04_c05_images"],
    "C06": ["contracts.c06_c07_transforms"],
    "C07": ["contracts.c06_c07_transforms"],
    "C08": ["contracts.c08_linalg"],
    "C09": ["contracts.c09_histories"],
    "C10": ["contracts.c10_flowfields"],
    "C11": ["contracts.c11_c13_flow"],
    "C12": ["contracts.c12_derivatives"],
    "C13": ["contracts.c12_derivatives", "contracts.c11_c13_flow"],
    "C14": ["contracts.c14_bspline", "contracts.c12_derivatives"],
    "C16": ["contracts.c16_losses"],
    "C17": ["contracts.c17_regularisers"],
    "C15": ["contracts.c08_linalg", "contracts.c12_derivatives"],
}

# evidence level per property ("proof" = the deciding part is discharged obligations)
LEVELS = {}

# per-property assumptions printed into the evidence in addition to the global trusted base
ASSUMPTIONS = {}


def modules_for(pid):
    return MODULES.get(pid, [])
