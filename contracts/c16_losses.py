"""C16 - image similarity and overlap losses satisfy their defining axioms (losses.functional, losses.image)."""
from __future__ import annotations

import itertools
from fractions import Fraction

import numpy as np
import torch

from vc import expr as E
from vc.contract import Raised, register

Q16Z = "C16: each pairwise image loss is zero (or its documented minimum) for identical inputs"
Q16S = "C16: is symmetric where defined to be"
Q16M = ("C16: averages only over the masked region - pointwise losses ignore samples where the mask is zero entirely - accepts every "
        "documented mask shape, scales as documented with the normalisation factor, and its 'mean' and 'sum' reductions are the mean and "
        "sum of its 'none' output")
Q16I = "C16: is invariant under the transformations it is designed to ignore (intensity scale and offset for global correlation)"
Q16O = ("C16: overlap measures equal 1 for identical binary segmentations, are symmetric, and the Tversky index with alpha = beta = 1/2 "
        "on binary inputs equals Dice")

SHAPES = {2: (2, 3), 3: (2, 2, 3)}
MASKS = ("none", "11", "N1", "NC", "1C")
POINTWISE = ("mse_loss", "ssd_loss", "mae_loss", "l1_loss", "huber_loss", "smooth_l1_loss")


def pointwise_spec(name, a, b):
    d = E.sub(a, b)
    if name in ("mse_loss", "ssd_loss"):
        return E.mul(d, d)
    z = E.abs_(d)
    if name in ("mae_loss", "l1_loss"):
        return z
    if name == "huber_loss":  # delta = 1
        return E.ite(E.lt(z, 1), E.mul(Fraction(1, 2), z, z), E.sub(z, Fraction(1, 2)))
    return E.ite(E.lt(z, 1), E.mul(Fraction(1, 2), z, z), E.sub(z, Fraction(1, 2)))  # smooth L1, beta = 1


def mask_of(K, form, N, C, shape):
    if form == "none":
        return None, None
    n = N if form[0] == "N" else 1
    c = C if form[1] == "C" else 1
    em = K.reals("m", (n, c) + shape, lo=0, hi=1)
    return K.tensor(em), em


@register
class PointwiseLosses:
    target = "deepali.losses.functional:elementwise_loss"
    properties = ("C16", "C15")

    def cases(self, tier):
        for D in (2, 3):
            for name in POINTWISE:
                for mask in MASKS:
                    if tier == "quick" and D == 3 and mask not in ("none", "N1"):
                        continue
                    yield {"D": D, "loss": name, "mask": mask}

    def run(self, case, K):
        import deepali.losses.functional as L

        D, name = case["D"], case["loss"]
        shape = SHAPES[D]
        N, C = 2, 2
        ea, eb = K.reals("a", (N, C) + shape), K.reals("b", (N, C) + shape)
        a, b = K.tensor(ea), K.tensor(eb)
        m, em = mask_of(K, case["mask"], N, C, shape)
        fn = getattr(L, name)
        none = K.call(fn, a, b, mask=m, reduction="none")
        if not K.ensure_returns(none, text="C16: accepts every documented mask shape"):
            return
        ell = np.frompyfunc(lambda x, y: pointwise_spec(name, x, y), 2, 1)(ea, eb)
        if em is not None:
            mm = np.broadcast_to(em, ell.shape)
            want_none = np.frompyfunc(E.mul, 2, 1)(ell, mm)
            if float(sum(float(K.value(v)) for v in mm.ravel())) == 0:
                return
        else:
            mm = None
            want_none = ell
        K.ensure_eq("none", none, want_none, text=Q16M + " ['none' = per-sample loss times mask]")
        tot = E.add(*list(want_none.ravel()))
        den = E.add(*list(mm.ravel())) if mm is not None else E.const(ell.size)
        for red, want in (("sum", tot), ("mean", E.div(tot, den))):
            r = K.call(fn, a, b, mask=m, reduction=red)
            if K.ensure_returns(r):
                K.ensure_eq(red, r, want, text=Q16M + f" [{red}]")
        # normalisation factor divides the value
        nf = K.real("norm", draw=(Fraction(1, 2), 4))
        K.assume(E.lt(0, nf))
        r = K.call(fn, a, b, mask=m, reduction="mean", norm=K.tensor(nf))
        if K.ensure_returns(r):
            K.ensure_eq("norm", r, E.div(E.div(tot, den), nf), text=Q16M + " [normalisation factor divides the value]")
        # identical inputs, symmetry
        z = K.call(fn, a, K.tensor(ea), mask=m, reduction="none")
        if K.ensure_returns(z):
            K.ensure_eq("identical", z, np.full(ell.shape, E.ZERO, dtype=object), text=Q16Z)
        sw = K.call(fn, b, a, mask=m, reduction="none")
        if K.ensure_returns(sw):
            K.ensure_eq("symmetric", sw, none, text=Q16S)
        if K.mode == "sym":
            for idx in list(np.ndindex(*ell.shape))[:6]:
                K.ensure(f"nonneg{list(idx)}", E.le(0, ell[idx]), text="C16: stays within its documented range (>= 0)")
        if name in ("mse_loss", "ssd_loss"):
            K.ensure_eq("mustfail", none, np.frompyfunc(lambda x, y: E.abs_(E.sub(x, y)), 2, 1)(ea, eb) if em is None else np.frompyfunc(E.mul, 2, 1)(np.frompyfunc(lambda x, y: E.abs_(E.sub(x, y)), 2, 1)(ea, eb), mm),
                        text="absolute instead of squared differences", must_fail=True)


@register
class NccLoss:
    target = "deepali.losses.functional:ncc_loss"
    properties = ("C16",)
    tol = 1e-3

    def cases(self, tier):
        for D in (2, 3):
            for what in ("axioms", "mask"):
                yield {"D": D, "what": what}

    def run(self, case, K):
        import deepali.losses.functional as L

        D = case["D"]
        shape = SHAPES[D] if D == 2 else (1, 2, 3)
        N, C = 2, 1
        ea, eb = K.reals("a", (N, C) + shape), K.reals("b", (N, C) + shape)
        a, b = K.tensor(ea), K.tensor(eb)
        if case["what"] == "mask":
            m = K.tensor(K.reals("m", (N, 1) + shape, lo=0, hi=1))
            r = K.call(L.ncc_loss, a, b, mask=m)
            K.ensure_returns(r, text="C16: accepts every documented mask shape [ncc_loss with a mask of the image shape]")
            return
        eps = 0.0

        def ncc_spec(x, y):
            out = []
            for n in range(N):
                xs, ys = list(x[n].ravel()), list(y[n].ravel())
                mx, my = E.mul(E.add(*xs), Fraction(1, len(xs))), E.mul(E.add(*ys), Fraction(1, len(ys)))
                dx, dy = [E.sub(v, mx) for v in xs], [E.sub(v, my) for v in ys]
                A = E.add(*[E.mul(p, q) for p, q in zip(dx, dy)])
                B = E.add(*[E.mul(p, p) for p in dx])
                Cc = E.add(*[E.mul(q, q) for q in dy])
                out.append((A, B, Cc))
            return out

        spec = ncc_spec(ea, eb)
        for A, B, Cc in spec:  # non-constant inputs
            K.assume(E.lt(0, B))
            K.assume(E.lt(0, Cc))
        none = K.call(L.ncc_loss, a, b, epsilon=eps, reduction="none")
        if not K.ensure_returns(none):
            return
        want = [E.sub(1, E.div(E.mul(A, A), E.mul(B, Cc))) for A, B, Cc in spec]
        K.ensure_eq("value", none, want, text="C16: ncc_loss = 1 - NCC^2 per batch item")
        z = K.call(L.ncc_loss, a, K.tensor(ea), epsilon=eps, reduction="none")
        if K.ensure_returns(z):
            K.ensure_eq("identical", z, [0] * N, text=Q16Z)
        sw = K.call(L.ncc_loss, b, a, epsilon=eps, reduction="none")
        if K.ensure_returns(sw):
            K.ensure_eq("symmetric", sw, none, text=Q16S)
        al, be, ga, de = K.real("alpha", draw=(Fraction(1, 2), 3)), K.real("beta"), K.real("gamma", draw=(-3, Fraction(-1, 2))), K.real("delta")
        K.assume(E.lt(0, al))
        K.assume(E.lt(ga, 0))
        a2 = K.tensor(np.frompyfunc(lambda v: E.add(E.mul(al, v), be), 1, 1)(ea))
        b2 = K.tensor(np.frompyfunc(lambda v: E.add(E.mul(ga, v), de), 1, 1)(eb))
        inv = K.call(L.ncc_loss, a2, b2, epsilon=eps, reduction="none")
        if K.ensure_returns(inv):
            K.ensure_eq("invariant", inv, none, text=Q16I)
        for red in ("mean", "sum"):
            r = K.call(L.ncc_loss, a, b, epsilon=eps, reduction=red)
            if K.ensure_returns(r):
                K.ensure_eq(red, r, E.mul(E.add(*want), Fraction(1, N) if red == "mean" else 1), text=Q16M + f" [{red}]")
        if K.mode == "conc":
            for v in K.val(none).ravel():
                K.ensure("range", lambda s, v=v: E.and_(E.le(E.const(0) - s, v), E.le(v, E.const(1) + s)), text="C16: stays within its documented range [0, 1]", slack=1e-5)


@register
class OverlapMeasures:
    target = "deepali.losses.functional:tversky_index"
    properties = ("C16",)
    tol = 1e-4

    def cases(self, tier):
        for D in (2, 3):
            for fn in ("dice_score", "dice_loss", "tversky_index", "tversky_loss"):
                for weight in (False, True):
                    if tier == "quick" and D == 3 and weight:
                        continue
                    yield {"D": D, "fn": fn, "weight": weight}
                yield {"D": D, "fn": fn, "weight": False, "identical_any": True}

    def run(self, case, K):
        import deepali.losses.functional as L

        D, fname = case["D"], case["fn"]
        shape = SHAPES[D]
        N, C = 2, 1
        if case.get("identical_any"):
            # identical binary segmentations - empty ones included - with the default epsilon
            C = 2
            ep = K.binaries("p", (N, C) + shape)
            if K.mode == "conc":  # make one (item, channel) empty in the bounded runs
                for idx in np.ndindex(*shape):
                    K.env[f"p[0,1,{','.join(map(str, idx))}]"] = Fraction(0)
            r = K.call(getattr(L, fname), K.tensor(ep), K.tensor(ep), reduction="none")
            if K.ensure_returns(r):
                K.ensure_eq("identical-any", K.val(r).reshape(-1), [0 if fname.endswith("loss") else 1] * (N * C),
                            text=Q16O + " [identical segmentations, empty channels included, default epsilon]", tol=1e-6)
            return
        ep, ey = K.binaries("p", (N, C) + shape), K.binaries("y", (N, C) + shape)
        # non-empty segmentations
        for n in range(N):
            K.assume(E.lt(0, E.add(*list(ep[n].ravel()))))
            K.assume(E.lt(0, E.add(*list(ey[n].ravel()))))
        p, y = K.tensor(ep), K.tensor(ey)
        w, ew = None, None
        if case["weight"]:
            ew = K.reals("w", (N, 1) + shape, lo=Fraction(1, 10), hi=2)
            w = K.tensor(ew)
        fn = getattr(L, fname)
        kw = dict(weight=w, epsilon=0.0, reduction="none")
        res = K.call(fn, p, y, **kw)
        # the statement does not mention voxel weights: weighted cases are helper clauses (reported as notes)
        kind = "helper" if case["weight"] else "property"
        if not K.ensure_returns(res, text="C16: every overlap loss and its functional form can be evaluated (tversky_loss included)", kind=kind):
            return

        def dots(x, z):
            out = []
            for n in range(N):
                xs, zs = list(x[n].ravel()), list(z[n].ravel())
                ws = list(np.broadcast_to(ew[n], x[n].shape).ravel()) if ew is not None else [E.ONE] * len(xs)
                out.append(E.add(*[E.mul(a, b, c) for a, b, c in zip(xs, zs, ws)]))
            return out

        I, PP, YY = dots(ep, ey), dots(ep, ep), dots(ey, ey)
        dice = [E.div(E.mul(2, i), E.add(a, b)) for i, a, b in zip(I, PP, YY)]
        is_loss = fname.endswith("loss")
        want = [E.sub(1, d) for d in dice] if is_loss else dice
        got = K.val(res).reshape(-1)
        K.ensure_eq("dice-value", got, want, text=Q16O + (" [Tversky(1/2, 1/2) = Dice on binary inputs]" if fname.startswith("tversky") else " [Dice = 2|A.B| / (|A| + |B|)]"))
        ident = K.call(fn, p, K.tensor(ep), **kw)
        if K.ensure_returns(ident):
            K.ensure_eq("identical", K.val(ident).reshape(-1), [0 if is_loss else 1] * N, text=Q16O + " [identical segmentations]")
        if fname.startswith("dice"):
            sw = K.call(fn, y, p, **kw)
            if K.ensure_returns(sw):
                K.ensure_eq("symmetric", sw, res, text=Q16O + " [symmetric]")
        for red in ("mean", "sum"):
            r = K.call(fn, p, y, **{**kw, "reduction": red})
            if K.ensure_returns(r):
                K.ensure_eq(red, r, E.mul(E.add(*want), Fraction(1, N) if red == "mean" else 1), text=Q16M + f" [{red}]")
        if fname == "tversky_index":
            al = Fraction(3, 10)
            r = K.call(fn, p, y, alpha=0.3, beta=0.7, **kw)
            if K.ensure_returns(r):
                PS, YS = dots(ep, np.full(ep.shape, E.ONE, dtype=object)), dots(ey, np.full(ep.shape, E.ONE, dtype=object))
                ti = [E.div(i, E.add(i, E.mul(al, E.sub(ps, i)), E.mul(1 - al, E.sub(ys, i)))) for i, ps, ys in zip(I, PS, YS)]
                K.ensure_eq("tversky-value", K.val(r).reshape(-1), ti, text="C16: Tversky index TP / (TP + alpha FP + beta FN)")
                K.ensure_eq("mustfail", K.val(r).reshape(-1), [E.div(i, E.add(i, E.mul(1 - al, E.sub(ps, i)), E.mul(al, E.sub(ys, i)))) for i, ps, ys in zip(I, PS, YS)], text="alpha and beta swapped", must_fail=True)


@register
class WindowedAndStatisticalLosses:
    """Bounded: lcc / wlcc (window sums at borders) and mi / nmi (estimators) - axioms on seeded float32 images."""

    target = "deepali.losses.functional:lcc_loss"
    properties = ("C16",)
    symbolic = False
    n_bounded = {"quick": 6, "thorough": 40}
    tol = 2e-3

    def cases(self, tier):
        for D in (2, 3):
            for name in ("lcc_loss", "wlcc_loss", "mi_loss", "nmi_loss"):
                yield {"D": D, "loss": name}

    def run(self, case, K):
        import deepali.losses.functional as L

        D, name = case["D"], case["loss"]
        shape = (9, 10) if D == 2 else (6, 7, 8)
        g = torch.Generator().manual_seed(K.rng.randint(0, 1 << 30))
        a = torch.rand((2, 1) + shape, generator=g)
        b = 0.6 * a + 0.4 * torch.rand((2, 1) + shape, generator=g)
        K.env["seed"] = g.initial_seed()
        fn = getattr(L, name)
        kw = {"kernel_size": 3} if "lcc" in name else {}
        r_ab = K.call(fn, a, b, **kw)
        r_aa = K.call(fn, a, a.clone(), **kw)
        r_ba = K.call(fn, b, a, **kw)
        for r in (r_ab, r_aa, r_ba):
            if not K.ensure_returns(r):
                return
        K.ensure_eq("symmetric", r_ab, r_ba, text=Q16S)
        if "lcc" in name:
            K.ensure_eq("identical", r_aa, np.zeros(()), text=Q16Z, tol=1e-3)
            al, be = K.rng.uniform(0.5, 3), K.rng.uniform(-1, 1)
            r_inv = K.call(fn, al * a + be, -al * b + 0.3, **kw)
            if K.ensure_returns(r_inv):
                K.ensure_eq("invariant", r_inv, r_ab, text="C16: invariant under intensity scale and offset (local correlation)", tol=5e-3)
            rn = K.call(fn, a, b, reduction="none", **kw)
            if K.ensure_returns(rn):
                K.ensure("range", E.bconst(bool((rn >= -1e-5).all() and (rn <= 1 + 1e-5).all())), text="C16: stays within its documented range [0, 1]")
                K.ensure_eq("mean", r_ab, rn.mean(), text=Q16M + " [mean]")
                m = (torch.rand((2, 1) + shape, generator=g) > 0.4).float()
                rm = K.call(fn, a, b, mask=m, **kw)
                if K.ensure_returns(rm, text="C16: accepts every documented mask shape"):
                    if name == "lcc_loss":
                        K.ensure_eq("masked-mean", rm, (rn * m).sum() / m.sum(), text="C16: windowed losses weight their local scores by the mask")
        else:
            K.ensure("lower-for-identical", E.bconst(bool(r_aa <= r_ab + 1e-6)), text=Q16Z + " [documented minimum]")
            r_neg = K.call(fn, a, 1 - b, **kw)
            if K.ensure_returns(r_neg):
                K.ensure_eq("relabel", r_neg, r_ab, text="C16: relabelling-free symmetry for mutual information (intensity inversion)", tol=5e-2)
            # per-item masks with random sampling of voxels: item k is sampled in *its own* region of interest only, so
            # intensities outside the mask of item 1 (here: inside the mask of item 0) do not influence the loss
            m = torch.zeros((2, 1) + shape)
            half = shape[-1] // 2
            m[0, ..., :half] = 1
            m[1, ..., half:] = 1
            outside1 = (m[1:2] == 0)
            a2, b2 = a.clone(), b.clone()
            a2[1:2][outside1] = 1 - a2[1:2][outside1]
            b2[1:2][outside1] = torch.rand(int(outside1.sum()), generator=g)
            vals = []
            for x, y in ((a, b), (a2, b2)):
                torch.manual_seed(1234)
                vals.append(K.call(fn, x, y, mask=m, num_samples=64, vmin=0.0, vmax=1.0))
            if K.ensure_returns(vals[0], text="C16: accepts every documented mask shape [per-item mask with sampling]") and K.ensure_returns(vals[1]):
                K.ensure_eq("own-mask-only", vals[1], vals[0], text="C16: averages only over the masked region [per-item masks: every item is sampled inside its own mask]", tol=1e-5)
