"""C17 - deformation regularisers (losses.functional): null space, sign, scaling, units; Lame parameters."""
from __future__ import annotations

import itertools
from fractions import Fraction

import numpy as np
import torch

from contracts.c12_derivatives import SHAPES, affine_flow_field, interior, spacing_arg
from contracts.c14_bspline import spline_spec
from vc import expr as E
from vc.contract import Raised, register

Q17N = "C17: bending and curvature energies vanish for affine deformations and are unchanged by adding one"
Q17G = ("C17: gradient-based terms (diffusion, total variation, general gradient loss, elasticity, divergence) vanish for translations and "
        "take their analytic values on affine fields")
Q17P = "C17: all are non-negative, quadratic terms scale with the square of the field, 'mean'/'sum' are the mean and sum of 'none'"
Q17L = "C17: linear transformations yield zero"
Q17M = "C17: material parameters given as any valid pair of elastic constants"
Q17I = ("C17: the inverse-consistency error of an exact inverse pair is zero and is reported in the requested unit (cube, voxel or world) "
        "for either align_corners convention")


class _SymMath:
    """stand-in for the `math` module inside the module under contract, for symbolic scalars"""

    def __getattr__(self, name):
        import math

        return getattr(math, name)

    @staticmethod
    def sqrt(x):
        import math

        return E.sqrt(x) if isinstance(x, E.Expr) else math.sqrt(x)


PAIRS = [
    ("first_parameter", "second_parameter"), ("first_parameter", "shear_modulus"), ("first_parameter", "poissons_ratio"),
    ("first_parameter", "youngs_modulus"), ("shear_modulus", "poissons_ratio"), ("second_parameter", "poissons_ratio"),
    ("shear_modulus", "youngs_modulus"), ("second_parameter", "youngs_modulus"), ("poissons_ratio", "youngs_modulus"),
]


@register
class LameParameters:
    """Pure Python scalar function: called with symbolic reals; every path explored."""

    target = "deepali.losses.functional:lame_parameters"
    properties = ("C17",)

    def cases(self, tier):
        for a, b in PAIRS:
            yield {"given": [a, b]}
        yield {"given": ["material_name"]}
        yield {"given": ["invalid"]}

    def run(self, case, K):
        import deepali.losses.functional as L

        given = case["given"]
        if given == ["invalid"]:
            r = K.call(L.lame_parameters, first_parameter=1.0)
            K.ensure_raises(r, (ValueError,), tag="one-arg", text="exactly two quantities are required")
            r = K.call(L.lame_parameters, first_parameter=1.0, second_parameter=1.0, shear_modulus=1.0)
            K.ensure_raises(r, (ValueError,), tag="three-args", text="exactly two quantities are required")
            r = K.call(L.lame_parameters, "rubber", first_parameter=1.0)
            K.ensure_raises(r, (ValueError,), tag="name+arg", text="material_name excludes other quantities")
            return
        if given == ["material_name"]:
            r = K.call(L.lame_parameters, "rubber")
            if K.ensure_returns(r, text=Q17M + " [preset]"):
                lam, mu = r
                ok = abs(float(mu) - 0.0006) < 1e-12 and abs(float(lam) / (2 * (float(lam) + float(mu))) - 0.4999) < 1e-9
                K.ensure("rubber", E.bconst(ok), text="preset 'rubber': shear modulus 0.0006, Poisson's ratio 0.4999", kind="helper")
            return
        # ground truth: free lambda > 0, mu > 0 ; the given pair is derived from them by the defining relations
        lam = K.real("lambda", draw=(Fraction(1, 10), 5))
        mu = K.real("mu", draw=(Fraction(1, 10), 5))
        K.assume(E.lt(Fraction(1, 1000), lam))
        K.assume(E.lt(Fraction(1, 1000), mu))
        quantities = {
            "first_parameter": lam, "second_parameter": mu, "shear_modulus": mu,
            "poissons_ratio": E.div(lam, E.mul(2, E.add(lam, mu))),
            "youngs_modulus": E.div(E.mul(mu, E.add(E.mul(3, lam), E.mul(2, mu))), E.add(lam, mu)),
        }
        kwargs = {name: (quantities[name] if K.mode == "sym" else float(K.value(quantities[name]))) for name in given}
        old = L.math
        if K.mode == "sym":
            L.math = _SymMath()
        try:
            r = K.call(L.lame_parameters, **kwargs)
        finally:
            L.math = old
        if not K.ensure_returns(r, text=Q17M + f" [{given[0]}, {given[1]}]"):
            return
        got_l, got_m = r
        if K.mode == "conc":
            got_l, got_m = np.array(float(got_l)), np.array(float(got_m))
        K.ensure_eq("lambda", got_l, lam, text=Q17M + " [Lame's first parameter satisfies the defining relations with the given pair]", tol=1e-6)
        K.ensure_eq("mu", got_m, mu, text=Q17M + " [shear modulus satisfies the defining relations with the given pair]", tol=1e-6)


def _call_loss(K, L, name, u, **kw):
    return K.call(getattr(L, name), u, **kw)


@register
class RegulariserNullSpaces:
    """bending / curvature vanish on affine fields; gradient terms vanish on translations; values on affine fields."""

    target = "deepali.losses.functional:grad_loss"
    properties = ("C17", "C15")

    LOSSES = ("bending_loss", "curvature_loss", "diffusion_loss", "total_variation_loss", "divergence_loss", "elasticity_loss", "grad_loss")

    def cases(self, tier):
        for D in (2, 3):
            for loss in self.LOSSES:
                modes = (None, "forward_central_backward", "central", "sobel") if (D == 2 or tier == "thorough") else (None,)
                for mode in modes:
                    if loss in ("bending_loss", "curvature_loss") and mode == "central":
                        continue  # replicate-padded one-sided schemes: the statement constrains interior points only
                    for field in ("affine", "translation"):
                        if field == "translation" and loss in ("bending_loss", "curvature_loss"):
                            continue
                        yield {"D": D, "loss": loss, "mode": mode, "field": field}
        # with Gaussian pre-smoothing of the field (sigma > 0): a translation stays a translation (replicate padding)
        for loss in ("diffusion_loss", "bending_loss", "divergence_loss"):
            yield {"D": 2, "loss": loss, "mode": None, "field": "translation", "sigma": 1.0}

    def run(self, case, K):
        import deepali.losses.functional as L

        D, loss, mode = case["D"], case["loss"], case["mode"]
        shape = SHAPES[D]
        N = 1
        arg, sp = spacing_arg(K, "vector", N, D)
        vals, As, bs = affine_flow_field(K, N, D, shape, sp)
        if case["field"] == "translation":
            for idx in np.ndindex(*vals.shape):
                vals[idx] = bs[0][idx[1]]
        u = K.tensor(vals)
        kw = dict(mode=mode, spacing=arg, reduction="none")
        if "sigma" in case:
            kw["sigma"] = case["sigma"]
        if loss == "elasticity_loss":
            kw.update(first_parameter=2.0, second_parameter=3.0)
        if loss == "grad_loss":
            kw.update(p=2, q=1)
        res = _call_loss(K, L, loss, u, **kw)
        if not K.ensure_returns(res):
            return
        got = K.val(res)
        A = As[0]
        eff = mode or ("sobel" if loss in ("bending_loss", "curvature_loss") else "forward_central_backward")
        mg = {d: 1 for d in range(D)} if eff in ("central", "forward", "backward") else {}
        sl = interior(shape, D, mg)
        if case["field"] == "translation":
            want = E.ZERO
            text = Q17G + " [vanish for translations]"
        elif loss in ("bending_loss", "curvature_loss"):
            want = E.ZERO
            text = Q17N
        elif loss in ("diffusion_loss", "grad_loss"):
            want = E.add(*[E.mul(A[i, j], A[i, j]) for i in range(D) for j in range(D)])
            if loss == "diffusion_loss":
                want = E.mul(want, Fraction(1, 2))
            text = Q17G + " [sum of squared partial derivatives (x 1/2 for diffusion)]"
        elif loss == "total_variation_loss":
            want = E.add(*[E.abs_(A[i, j]) for i in range(D) for j in range(D)])
            text = Q17G + " [sum of absolute partial derivatives]"
        elif loss == "divergence_loss":
            tr = E.add(*[A[i, i] for i in range(D)])
            want = E.mul(Fraction(1, 2), tr, tr)
            text = Q17G + " [1/2 (trace)^2]"
        else:
            tr = E.add(*[A[i, i] for i in range(D)])
            want = E.add(E.mul(Fraction(2, 2), tr, tr), *[E.mul(Fraction(3, 4), E.add(A[j, k], A[k, j]), E.add(A[j, k], A[k, j])) for j in range(D) for k in range(D)])
            text = Q17G + " [lambda/2 tr^2 + mu/4 sum (J_jk + J_kj)^2]"
        g = got[sl] if got.ndim == 2 + D else got
        K.ensure_eq("value", g, np.full(g.shape, want, dtype=object), text=text)
        if K.mode == "sym":
            for e in list(g.ravel())[:40]:
                pass
        # reductions
        rm = _call_loss(K, L, loss, u, **{**kw, "reduction": "mean"})
        rs = _call_loss(K, L, loss, u, **{**kw, "reduction": "sum"})
        if K.ensure_returns(rm) and K.ensure_returns(rs):
            flat = list(got.ravel())
            K.ensure_eq("sum", rs, E.add(*flat) if K.mode == "sym" else np.array(sum(float(K.value(v)) for v in flat)), text=Q17P + " [sum]", tol=1e-3)
            K.ensure_eq("mean", rm, E.mul(E.add(*flat), Fraction(1, len(flat))) if K.mode == "sym" else np.array(sum(float(K.value(v)) for v in flat) / len(flat)), text=Q17P + " [mean]", tol=1e-3)


@register
class RegulariserScaling:
    """fully symbolic small fields: non-negativity (sum-of-squares form), loss(c u) = c^2 loss(u), adding an affine field /
    translation does not change bending / gradient terms, linear transformations give zero."""

    target = "deepali.losses.functional:bending_loss"
    properties = ("C17",)

    def cases(self, tier):
        for loss in ("bending_loss", "curvature_loss", "diffusion_loss", "divergence_loss", "elasticity_loss"):
            yield {"D": 2, "loss": loss, "what": "scaling"}
            yield {"D": 2, "loss": loss, "what": "invariance"}
        for loss in RegulariserNullSpaces.LOSSES:
            yield {"D": 2, "loss": loss, "what": "linear"}

    def run(self, case, K):
        import deepali.losses.functional as L

        D, loss = case["D"], case["loss"]
        kw = dict(mode="forward_central_backward", reduction="none")
        if loss == "elasticity_loss":
            kw.update(first_parameter=2.0, second_parameter=3.0)
        if case["what"] == "linear":
            for shp in ((D, D + 1), (1, D, D + 1)):
                m = K.tensor(K.reals("m", shp))
                r = K.call(getattr(L, loss), m, **{k: v for k, v in kw.items() if k not in ("reduction", "mode")})
                if K.ensure_returns(r, text=Q17L):
                    K.ensure_eq(f"zero{len(shp)}", r, 0, text=Q17L)
            return
        shape = (4, 5)
        eu = K.reals("u", (1, D) + shape)
        u = K.tensor(eu)
        base = K.call(getattr(L, loss), u, **kw)
        if not K.ensure_returns(base):
            return
        b = K.val(base)
        if case["what"] == "scaling":
            c = K.real("c")
            cu = K.tensor(np.frompyfunc(lambda v: E.mul(c, v), 1, 1)(eu))
            r = K.call(getattr(L, loss), cu, **kw)
            if K.ensure_returns(r):
                K.ensure_eq("quadratic", r, np.frompyfunc(lambda v: E.mul(c, c, v), 1, 1)(b), text=Q17P + " [loss(c u) = c^2 loss(u)]")
            return
        # invariance under adding a member of the null space
        sp = [[E.ONE] * D]
        add, As, bs = affine_flow_field(K, 1, D, shape, sp, "n")
        if loss not in ("bending_loss", "curvature_loss"):
            for idx in np.ndindex(*add.shape):
                add[idx] = bs[0][idx[1]]
        v = K.tensor(np.frompyfunc(E.add, 2, 1)(eu, add))
        r = K.call(getattr(L, loss), v, **{**kw, "spacing": 1.0})
        b1 = K.call(getattr(L, loss), u, **{**kw, "spacing": 1.0})
        if K.ensure_returns(r) and K.ensure_returns(b1):
            K.ensure_eq("invariant", r, b1, text=Q17N if loss in ("bending_loss", "curvature_loss") else Q17G + " [unchanged by adding a translation]")


@register
class InverseConsistency:
    target = "deepali.losses.functional:inverse_consistency_loss"
    properties = ("C17",)
    tol = 2e-4

    def cases(self, tier):
        for D in (2, 3):
            for units in ("cube", "voxel", "world"):
                for ac in (True, False):
                    for form in ("matrix", "flow"):
                        if tier == "quick" and D == 3 and (form == "flow" or not ac):
                            continue
                        yield {"D": D, "units": units, "align_corners": ac, "form": form}
        # an exact pair whose inverse is a *non-constant* dense field (contraction / expansion about the centre): the second
        # leg samples the inverse field at the mapped points, with the grid's own align_corners convention
        for D in (2, 3):
            for ac in (True, False):
                if tier == "quick" and D == 3 and ac:
                    continue
                yield {"D": D, "units": "cube", "align_corners": ac, "form": "scaling-flows"}
        # foreground masks in the encodings the docstring allows ("errors at points with a zero mask value are ignored")
        for enc in ("uint8-255", "labels", "soft"):
            for units in ("cube", "world"):
                yield {"D": 2, "units": units, "align_corners": True, "form": "matrix", "mask": enc}

    def run(self, case, K):
        import deepali.losses.functional as L
        from deepali.core.grid import Grid

        D, units, ac = case["D"], case["units"], case["align_corners"]
        shape = (3, 4) if D == 2 else (2, 3, 3)
        size = shape[::-1]
        s = [K.real(f"s{i}", draw=(Fraction(1, 2), 3)) for i in range(D)]
        for v in s:
            K.assume(E.lt(0, v))
        g = Grid(size=size, spacing=K.tensor(s), align_corners=ac)
        if case["form"] == "scaling-flows":
            from contracts.c11_c13_flow import lattice

            a = [K.real(f"a{i}", draw=(Fraction(1, 2), Fraction(9, 10))) for i in range(D)]
            for v in a:
                K.assume(E.lt(Fraction(1, 4), v))
                K.assume(E.lt(v, 1))
            x = lattice(shape, ac)  # (*shape, D) cube coordinates of the samples in the grid's own convention
            fwd = np.empty((1, D) + shape, dtype=object)
            inv = np.empty((1, D) + shape, dtype=object)
            for idx in np.ndindex(*shape):
                for i in range(D):
                    fwd[(0, i) + idx] = E.mul(E.sub(a[i], 1), x[idx + (i,)])
                    inv[(0, i) + idx] = E.mul(E.sub(E.div(1, a[i]), 1), x[idx + (i,)])
            zero = K.call(L.inverse_consistency_loss, K.tensor(fwd), K.tensor(inv), grid=g, units=units, reduction="none")
            if K.ensure_returns(zero):
                K.ensure_eq("exact-pair-dense", zero, np.full(K.val(zero).shape, E.ZERO, dtype=object), text=Q17I + " [exact pair of non-constant dense fields -> zero at every sample]")
            return
        # forward map: x -> x + t in cube coordinates (a translation; exact inverse x -> x - t); error pair: inverse off by e
        t = [K.real(f"t{i}", draw=(Fraction(-1, 8), Fraction(1, 8))) for i in range(D)]
        e = [K.real(f"e{i}", draw=(Fraction(-1, 8), Fraction(1, 8))) for i in range(D)]
        if case["form"] == "matrix":
            fwd = np.array([[E.ONE if i == j else E.ZERO for j in range(D)] + [t[i]] for i in range(D)], dtype=object)[None]
            inv = np.array([[E.ONE if i == j else E.ZERO for j in range(D)] + [E.sub(e[i], t[i])] for i in range(D)], dtype=object)[None]
        else:
            fwd = np.empty((1, D) + shape, dtype=object)
            inv = np.empty((1, D) + shape, dtype=object)
            for idx in np.ndindex(*fwd.shape):
                fwd[idx] = t[idx[1]]
                inv[idx] = E.sub(e[idx[1]], t[idx[1]])
        if case["form"] == "flow":
            # a constant displacement leaves the sample hull: use border-free exact pair only (e = error)
            pass
        if "mask" in case:
            fg = torch.zeros((1, 1) + shape)
            fg[..., : shape[-1] // 2] = 1
            enc = {"uint8-255": (fg * 255).to(torch.uint8), "labels": (fg * 3).to(torch.int64), "soft": fg * 0.3}[case["mask"]]
            for red in ("none", "mean"):
                base = K.call(L.inverse_consistency_loss, K.tensor(fwd), K.tensor(inv), grid=g, units=units, reduction=red, mask=fg)
                other = K.call(L.inverse_consistency_loss, K.tensor(fwd), K.tensor(inv), grid=g, units=units, reduction=red, mask=enc)
                if K.ensure_returns(base) and K.ensure_returns(other, text=Q17I + f" [mask given as {case['mask']}]"):
                    K.ensure_eq(f"mask-encoding[{red}]", other, K.val(base), text=Q17I + f" [errors at points with a zero mask value are ignored, the others count fully: mask encoded as {case['mask']}]")
            return
        res = K.call(L.inverse_consistency_loss, K.tensor(fwd), K.tensor(inv), grid=g, units=units, reduction="none")
        if not K.ensure_returns(res):
            return
        # error vector in cube units is e everywhere; in voxel units e_i * n_i/2 (cells: n-1 for align_corners), world: * spacing
        comp = []
        for i in range(D):
            v = e[i]
            if units in ("voxel", "world"):
                v = E.mul(v, Fraction(size[i] - 1 if ac else size[i], 2))
            if units == "world":
                v = E.mul(v, s[i])
            comp.append(v)
        want = E.sqrt(E.add(*[E.mul(v, v) for v in comp]))
        got = K.val(res)
        if case["form"] == "flow":
            K.note("flow form: compared in the interior where no extrapolation is involved")
        K.ensure_eq("error", got, np.full(got.shape, want, dtype=object), text=Q17I)
        zero = K.call(L.inverse_consistency_loss, K.tensor(fwd), K.tensor(np.frompyfunc(lambda a, b: E.sub(a, b), 2, 1)(inv, np.broadcast_to(np.array(e + ([E.ZERO] if False else []), dtype=object).reshape((1, D) + (1,) * (inv.ndim - 2)) if case["form"] == "flow" else _ecol(e, D), inv.shape))), grid=g, units=units)
        if K.ensure_returns(zero):
            K.ensure_eq("exact-pair", zero, 0, text=Q17I + " [exact inverse pair -> zero]")


def _ecol(e, D):
    m = np.full((1, D, D + 1), E.ZERO, dtype=object)
    for i in range(D):
        m[0, i, D] = e[i]
    return m


@register
class BSplineBending:
    """bending_loss(mode='bspline') / bspline_bending_loss equal the energy of the analytic second derivatives of the spline."""

    target = "deepali.losses.functional:bspline_bending_loss"
    properties = ("C17",)
    tol = 1e-3

    def cases(self, tier):
        yield {"D": 2, "n": [5, 5], "stride": 1, "fn": "bspline_bending_loss"}
        yield {"D": 2, "n": [5, 6], "stride": 2, "fn": "bending_loss"}
        yield {"D": 2, "n": [5, 5], "stride": 1, "fn": "bending_loss"}

    def run(self, case, K):
        import deepali.losses.functional as L

        D, n, s = case["D"], tuple(case["n"]), case["stride"]
        ec = K.reals("c", (1, D) + n)
        c = K.tensor(ec, dtype=torch.float64 if K.mode == "sym" else torch.float32)
        if case["fn"] == "bspline_bending_loss":
            res = K.call(L.bspline_bending_loss, c, stride=s, reduction="none")
            h = [E.const(Fraction(2, (n[D - 1 - d] - 1))) for d in range(D)]  # default spacing of flow derivatives: 2 / (n - 1)
        else:
            arg, sp = spacing_arg(K, "vector", 1, D)
            h = sp[0]
            res = K.call(L.bending_loss, c, mode="bspline", stride=s, spacing=arg, reduction="none")
        if not K.ensure_returns(res):
            return
        st = [s] * D
        total = None
        for i in range(D):
            comp = ec[:, i : i + 1]
            for d in range(D):
                for e in range(d, D):
                    order = [0] * D
                    order[d] += 1
                    order[e] += 1
                    dv = spline_spec(comp, st[::-1], order[::-1])
                    den = E.mul(h[d], h[e])
                    term = np.frompyfunc(lambda v, den=den, w=(1 if d == e else 2): E.mul(w, E.div(v, den), E.div(v, den)), 1, 1)(dv)
                    total = term if total is None else np.frompyfunc(E.add, 2, 1)(total, term)
        K.ensure_eq("energy", res, total, text="C17: the B-spline bending energy equals the energy of the analytic spline derivatives (second derivatives divided by spacing^2)")
