#!/bin/sh
# tools/try_patch.sh <property> <patch.diff> [extra check args]: apply a seeded change to /repo, run the check, undo it.
pid="$1"; patch="$2"; shift 2
cd /repo && git status --short | grep -q . && { echo "repo not clean"; exit 9; }
git -C /repo apply "$patch" || { echo "patch does not apply"; exit 9; }
cd /verif && ./check "$pid" --no-evidence "$@" > /tmp/try_patch_$pid.log 2>&1; rc=$?
git -C /repo checkout -- .
grep -c '^VIOLATION' /tmp/try_patch_$pid.log | sed 's/^/violation lines: /'
grep -m3 -A1 '^VIOLATION' /tmp/try_patch_$pid.log | cut -c1-330
tail -1 /tmp/try_patch_$pid.log | cut -c1-300
echo "exit=$rc"
