#!/bin/sh
# tools/confirm_seed.sh <worktree> <outdir>: confirm a seeded change in its scratch worktree:
#   demo fails with the change, the repository's tests still pass with it, demo passes without it.
wt="$1"; out="$2"
cd "$wt" || exit 9
git checkout -q -- . ; git status --short | grep -v '^??' | grep -q . && { echo "worktree not clean"; exit 9; }
export PYTHONPATH="$wt/src" PYTHONWARNINGS=ignore
/venv/bin/python "$out/demo.py" >/dev/null 2>&1; clean=$?
git apply "$out/patch.diff" || { echo "patch does not apply"; exit 9; }
/venv/bin/python "$out/demo.py" >/dev/null 2>&1; mut=$?
/venv/bin/python -m pytest -q -p no:cacheprovider -x tests > "$out/tests_with_change.log" 2>&1; t=$?
git checkout -q -- .
echo "demo_clean_exit=$clean demo_changed_exit=$mut tests_with_change_exit=$t $(tail -1 "$out/tests_with_change.log")"
