#!/usr/bin/env python3
"""Regenerates the generated tables of DESIGN.md (between the GENERATED markers) from known_findings.json,
seeded/*/meta.json and evidence/*.json."""
import glob, json, os, re, subprocess
ROOT = os.path.dirname(os.path.dirname(os.path.abspath(__file__)))


def seeds_table():
    rows = ["| seed | change (made by a sub-agent that saw only the property text) | caught by | missed at first? |", "|---|---|---|---|"]
    for d in sorted(glob.glob(os.path.join(ROOT, "seeded", "*"))):
        m = json.load(open(os.path.join(d, "meta.json")))
        what = m.get("what")
        if not what:
            lines = [l for l in m.get("needs_to_manifest", []) if l.strip()]
            what = re.sub(r"^#+\s*(Mutation \d+:\s*)?", "", lines[0]) if lines else ""
        by = m.get("caught_by", "")
        missed = m.get("missed_at_first")
        if missed is None:
            missed = "after" in by and ("added" in by or "strengthen" in by)
        rows.append(f"| {os.path.basename(d)} | {what[:230]} | {by[:260]} | {'yes - check strengthened' if missed else 'no'} |")
    return "\n".join(rows)


def fixes_table():
    k = json.load(open(os.path.join(ROOT, "known_findings.json")))
    rows = ["| property | commit in /repo | what failed (found by the check named in parentheses) |", "|---|---|---|"]
    for f in k["fixed"]:
        rows.append(f"| {f['property']} | {f['commit']} | {f['what']} |")
    rows2 = ["| id | property | what fails | why recorded rather than repaired |", "|---|---|---|---|"]
    for f in k["findings"]:
        what = f["what"]
        rows2.append(f"| {f['id']} | {f['property']} | {what} | see text |")
    return "\n".join(rows), "\n".join(rows2)


def evidence_table():
    rows = ["| property | level | contracts | cases | paths | obligations = discharged | back ends | bounded evaluations | wall (s) |", "|---|---|---|---|---|---|---|---|---|"]
    for p in sorted(glob.glob(os.path.join(ROOT, "evidence", "C*.json"))):
        e = json.load(open(p))
        c = e["coverage"]
        be = ", ".join(f"{k} {v}" for k, v in sorted(c.get("by_backend", {}).items(), key=lambda kv: -kv[1]))
        rows.append(f"| {e['property_id']} | {e['level']} | {len(c.get('contracts', []))} | {c.get('cases')} | {c.get('paths')} | {c.get('obligations')} = {c.get('discharged')} | {be} | {c.get('bounded', {}).get('evaluations')} | {e.get('wall_s')} |")
    return "\n".join(rows)


def main():
    p = os.path.join(ROOT, "DESIGN.md")
    s = open(p).read()
    fx, kf = fixes_table()
    for tag, body in (("SEEDS", seeds_table()), ("FIXES", fx), ("FINDINGS", kf), ("EVIDENCE", evidence_table())):
        a, b = f"<!-- GENERATED:{tag} -->", f"<!-- /GENERATED:{tag} -->"
        if a in s and b in s:
            s = s[: s.index(a) + len(a)] + "\n" + body + "\n" + s[s.index(b):]
    open(p, "w").write(s)


if __name__ == "__main__":
    main()
