#!/bin/sh
# tools/run_seeds.sh [pattern]: apply every seeded change under seeded/ in turn, run the check of its property (quick tier),
# revert; prints one line per seed (CAUGHT = exit 1 with VIOLATION lines, MISSED = exit 0, else the exit code)
cd /verif
for d in seeded/${1:-*}; do
  s=$(basename "$d"); p=${s%-*}
  out=$(tools/try_patch.sh "$p" "/verif/$d/patch.diff" 2>&1)
  rc=$(echo "$out" | sed -n 's/^exit=//p' | tail -1)
  n=$(echo "$out" | sed -n 's/^violation lines: //p' | tail -1)
  case "$rc" in 1) v=CAUGHT;; 0) v=MISSED;; *) v="rc=$rc";; esac
  echo "$s $v violation_lines=$n $(echo "$out" | grep -c 'patch does not apply' | sed 's/^0$//;s/^1$/PATCH-DOES-NOT-APPLY/')"
done
