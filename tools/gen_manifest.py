#!/usr/bin/env python3
"""Regenerates MANIFEST.json from the table below (claimed checks + not_applicable)."""
import json, os, subprocess
ROOT = os.path.dirname(os.path.dirname(os.path.abspath(__file__)))
TECH = "contract-based deductive verification: sidecar contracts on the real deepali functions, executed on real torch under a symbolic shadow (all paths); obligations discharged by ring normaliser / z3 / cvc5; same contracts evaluated at run time as bounded stand-in"
NOTE = ("Trusted: symbolic meaning of aten ops in vc/shadow.py (validated against torch's concrete result at every executed op), floats treated as "
        "reals, spec functions in /verif/spec, z3/cvc5/own ring normaliser. Proofs are unbounded in every value and exhaustive in the enumerated "
        "configuration; field shapes are those listed in the evidence. Bounded part (never counted as proved): the same contracts on seeded concrete inputs.")
CLAIMS = {
 "C01": ("proof", "Contracts on Grid.transform / transform_vectors / apply_transform / point helpers / coords / points, Cube.transform and the laws of the statement: every returned map equals, entry by entry and for all sizes, spacings, centers and orientations (D in {2,3}, both det components in thorough), the affine interpolant of the anchors named in the statement; laws A->B->A = id, A->C = A->B->C, vectors = linear part are also run through the real code. Identity resampling is proved for all image contents at fixed small shapes. Lattice count/values: exhaustive float sweep n in [1,4096] (bounded).", NOTE + " The Grid.__eq__/Cube.__eq__ allclose band is excluded by requires."),
 "C02": ("proof", "Contracts on Grid construction from origin / center / origin_ / origin(), index<->world against ITK's documented formula P = O + D diag(S) i (all values, both det components), header pass-through of Grid.from_sitk / from_reader on duck-typed headers (row-major direction). Agreement of that formula with the real SimpleITK and the Image.sitk() round trip are bounded differential checks.", NOTE + " ITK's formula is an assumption about ITK, validated by the bounded differential run against SimpleITK."),
 "C03": ("proof", "Contracts on Grid._resize/resize/reshape, downsample/upsample (incl. down-then-up identity), resample, crop/pad (all margin forms, either sign), narrow, center_crop/pad, region_of_interest, pool/avg_pool, pyramid: geometry clauses of the statement for symbolic unbounded sizes/spacings/centers/orientations (sizes enumerated where the code reads them as Python ints); internal asserts are proved unreachable in exact arithmetic. The floating-point clause (no spurious internal error) is a bounded float32 sweep over chains of <= 3 operations.", NOTE),
 "C08": ("proof", "Contracts on homogeneous_matmul/hmm (9 form pairs x 9 batch-shape pairs x D), homogeneous_transform, as_homogeneous_matrix/homogeneous_matrix, euler_rotation_order (exhaustive), euler_rotation_matrix (all 27 orders in both notations, batched/unbatched, homogeneous) and quaternion_to_rotation_matrix: results equal the spec maps for all real entries/angles/unit quaternions, proper-rotation clauses included.", NOTE + " sin/cos of one angle are two atoms with s^2 = 1 - c^2. Axis-angle / Euler-angle extraction (acos/atan2) is not under contract."),
 "C12": ("proof", "Contracts on finite_differences (4 modes x dilation), spatial_derivatives (6 finite-difference modes, 5 spacing forms, orders 1 and 2, mixed keys, subset requests, bspline mode), flow_derivatives, jacobian_det/matrix (+identity), divergence, curl, lie_bracket: exact analytic values on affine / quadratic fields with symbolic coefficients and per-batch spacings at shapes 5x6, 6x7, 5x5x6.", NOTE + " Shape-bounded (listed shapes); gaussian mode is not claimed exact and not under contract."),
 "C14": ("proof", "Contracts on cubic_bspline_interpolation_weights (strides 1..16 x derivative 0..4 exhaustively vs the analytic basis, partition of unity, linear precision), kernels.cubic_bspline_value (symbolic real argument, all paths), cubic_bspline_control_point_grid_size (exhaustive over size<=64/320 x stride<=16), evaluate_cubic_bspline (tensor-product formula, derivative orders, non-divisible crops, linear precision, transpose agreement), subdivide_cubic_bspline (same function on the common domain, repeated), bspline derivative mode.", NOTE + " Weights are concrete float64 values rationalised exactly (denominators <= 6*16^3)."),
}
def main():
    props = [json.loads(l)["id"] for l in open(os.path.join(ROOT, "properties.jsonl"))]
    commits = subprocess.run(["git", "-C", "/repo", "log", "--format=%h %s", "ce5dfd1..HEAD"], capture_output=True, text=True).stdout.strip().splitlines()
    m = {"version": 1, "setup_cmd": "./setup.sh",
         "hooks": {"guard": "DEEPALI_VERIF", "enable": "no source hooks: contracts are sidecar files under /verif/contracts; the verifier shadows torch from outside (TorchDispatchMode)",
                   "baseline_off_cmd": "cd /repo && /venv/bin/python -m pytest -ra -q -p no:cacheprovider --timeout=900 --continue-on-collection-errors",
                   "source_commits": [c.split()[0] for c in commits if " fix:" in c], "add_only": True},
         "engines": [{"name": "vc", "path": "vc/", "serves_properties": sorted(CLAIMS), "kind_free_text": "symbolic shadow execution of the real code on real torch + ring/z3/cvc5 portfolio + run-time contract evaluator"}],
         "checks": [], "not_applicable": [],
         "notes": "fix: commits in /repo repair genuine defects found by the checks (see known_findings.json 'fixed'); no hooks or instrumentation were added to /repo."}
    for pid in props:
        if pid in CLAIMS:
            lvl, text, note = CLAIMS[pid]
            m["checks"].append({"property_id": pid, "quick_cmd": f"./check {pid} --tier quick", "thorough_cmd": f"./check {pid} --tier thorough",
                                "evidence_file": f"evidence/{pid}.json", "replay_cmd_template": f"./check {pid} --replay {{path}}", "engine": "vc",
                                "level_claimed": {"category": lvl, "text": text, "design_ref": f"DESIGN.md §1, §3 {pid}, §8"}, "level_note": note, "technique": TECH})
        else:
            m["not_applicable"].append({"property_id": pid, "reason": "not yet claimed: contracts for this property are still under construction in this session"})
    json.dump(m, open(os.path.join(ROOT, "MANIFEST.json"), "w"), indent=1)
if __name__ == "__main__":
    main()
