#!/bin/sh
# run every claimed check (quick tier) on the unchanged tree, refresh ledgers and evidence
cd /verif
for p in $(python3 -c "import json; print(' '.join(c['property_id'] for c in json.load(open('MANIFEST.json'))['checks']))"); do
  ./check $p --write-ledger "$@" 2>&1 | grep -v "^   \|^NOTE" | tail -3 | cut -c1-260
  echo "   exit=$? ($p)"
done
